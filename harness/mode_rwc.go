//go:build verif

package main

import (
	"fmt"
	"net"
	"net/http"
	"os"
	"sort"
	"strconv"
	"strings"
	"sync"
	"syscall"
	"time"

	"github.com/gorilla/websocket"
	"github.com/practable/relay/internal/agg"
	"github.com/practable/relay/internal/hub"
	"github.com/practable/relay/internal/rwc"
)

// mode rwc: the real agg.Hub + rwc.Hub, with recording websocket destination servers on loopback
// inside this process.  A destination named d is ws://127.0.0.1:<port>/c<case>/<hex(d)>; every
// accepted connection is tagged with that path, so (the generator giving every rule version its own
// destination name unless it deliberately shares one) the rule version owning a socket is known.
//
// Synchronisation (no sleeps decide an outcome):
//   - add/del hand the op to rwc.Hub and then hand it a no-op (Delete of an id nobody uses): when
//     that second hand-off is taken the hub goroutine has finished the first op completely.
//     Hub.Rules/Hub.Clients are read only right after such a barrier (they are not locked: K5).
//   - `dell k` reads Hub.Rules after a barrier, deletes the k-th listed id (mod the number listed) and
//     reports it: deleting a rule by the id the implementation itself lists it under.
//   - `await d n t` waits (<= 2 s, `slow` <= 12 s) until n sockets to d are open and t have been
//     accepted in total, and prints what it actually saw: "promptly" = within that bound.
//   - bcast/inject wait until k sockets got the message (re-sending after 400 ms, at most 3 times,
//     because the inner hub DROPS a message when a client's buffer is full or an aggregation
//     forwarder goroutine is not yet parked on its unbuffered channel), then 40 ms more for
//     receipts that should not happen, and print every socket that got it.
//     n, t, k come from the generator's reference and only shorten waiting; outputs are observations.
//     When `await` runs into its bound it also prints last=<k>: the number of distinct messages that came
//     in over the most recently accepted socket to d (what a connection nobody should have made carried).
//   - `idle ms` lets real time pass (the only op whose point is the clock: a reconnecting client that was told
//     to stop while it sat in a back-off sleep of 1 s, 2 s, 4 s ... must not dial again when the sleep ends;
//     the `await`s that follow say what the destinations saw meanwhile).
//
// Destinations whose name starts with "pt" have a TCP port of their own: while such a destination is `down`
// NOTHING LISTENS on its port (connection refused; the port stays reserved by a bound socket that does not
// listen), and `up` starts listening on that very port.  All other destinations share one port and, while
// down, refuse the websocket upgrade with a 503.

const rwcBarrierID = "\x00verif-barrier"

type rwcConn struct {
	dest string // hex name
	ws   *websocket.Conn
	open bool
	recv map[string]bool
}

type rwcEnv struct {
	mu       sync.Mutex
	prefix   string
	dead     bool
	conns    []*rwcConn
	down     map[string]bool
	accepted map[string]int
	ports    map[string]*rwcOwnPort // destinations with a port of their own (only touched by the op goroutine)
}

// rwcOwnPort: a loopback port that is either listened on (srv) or merely held by a bound socket (fd)
type rwcOwnPort struct {
	port int
	fd   int // bound, not listening; -1 when listening or lost
	srv  *http.Server
}

func rwcBind(port int) (int, int, error) {
	fd, err := syscall.Socket(syscall.AF_INET, syscall.SOCK_STREAM|syscall.SOCK_CLOEXEC, 0)
	if err != nil {
		return -1, 0, err
	}
	_ = syscall.SetsockoptInt(fd, syscall.SOL_SOCKET, syscall.SO_REUSEADDR, 1)
	if err = syscall.Bind(fd, &syscall.SockaddrInet4{Port: port, Addr: [4]byte{127, 0, 0, 1}}); err != nil {
		syscall.Close(fd)
		return -1, 0, err
	}
	sa, err := syscall.Getsockname(fd)
	if err != nil {
		syscall.Close(fd)
		return -1, 0, err
	}
	return fd, sa.(*syscall.SockaddrInet4).Port, nil
}

func rwcReserve() *rwcOwnPort {
	fd, port, err := rwcBind(0)
	if err != nil {
		panic(err)
	}
	return &rwcOwnPort{port: port, fd: fd}
}

// listen starts accepting on the held port (false: the port could not be listened on)
func (p *rwcOwnPort) listen() bool {
	if p.srv != nil {
		return true
	}
	var ln net.Listener
	if p.fd >= 0 {
		if err := syscall.Listen(p.fd, 128); err != nil {
			return false
		}
		f := os.NewFile(uintptr(p.fd), "rwc-dest")
		l, err := net.FileListener(f) // dups the descriptor
		f.Close()
		p.fd = -1
		if err != nil {
			return false
		}
		ln = l
	} else {
		// the port slipped away when it was closed (see unlisten): try to get it back
		var err error
		for i := 0; i < 200 && ln == nil; i++ {
			if ln, err = net.Listen("tcp", fmt.Sprintf("127.0.0.1:%d", p.port)); err != nil {
				ln = nil
				time.Sleep(10 * time.Millisecond)
			}
		}
		if ln == nil {
			return false
		}
	}
	p.srv = &http.Server{Handler: http.HandlerFunc(rwcHandle)}
	go func(srv *http.Server, ln net.Listener) { _ = srv.Serve(ln) }(p.srv, ln)
	return true
}

// unlisten closes the listener and takes hold of the port again with a socket that does not listen
func (p *rwcOwnPort) unlisten() {
	if p.srv == nil {
		return
	}
	_ = p.srv.Close()
	p.srv = nil
	for i := 0; i < 2000; i++ {
		if fd, _, err := rwcBind(p.port); err == nil {
			p.fd = fd
			return
		}
		time.Sleep(time.Millisecond)
	}
	p.fd = -1
}

func (p *rwcOwnPort) release() {
	if p.srv != nil {
		_ = p.srv.Close()
		p.srv = nil
	}
	if p.fd >= 0 {
		syscall.Close(p.fd)
		p.fd = -1
	}
}

// rwcOwn: does the destination (hex name) have a port of its own?  names starting with "pt"
func rwcOwn(hexDest string) bool { return strings.HasPrefix(hexDest, "7074") }

var (
	rwcOnce   sync.Once
	rwcPort   int
	rwcCurMu  sync.Mutex
	rwcCur    *rwcEnv
	rwcCaseNo int
	rwcStop   func()
	rwcUp     = websocket.Upgrader{CheckOrigin: func(*http.Request) bool { return true }}
)

func rwcServe() {
	ln, err := net.Listen("tcp", "127.0.0.1:0")
	if err != nil {
		panic(err)
	}
	rwcPort = ln.Addr().(*net.TCPAddr).Port
	srv := &http.Server{Handler: http.HandlerFunc(rwcHandle)}
	go func() { _ = srv.Serve(ln) }()
}

func rwcHandle(w http.ResponseWriter, r *http.Request) {
	rwcCurMu.Lock()
	e := rwcCur
	rwcCurMu.Unlock()
	if e == nil || !strings.HasPrefix(r.URL.Path, e.prefix) {
		http.Error(w, "gone", http.StatusNotFound)
		return
	}
	dest := strings.TrimPrefix(r.URL.Path, e.prefix)
	e.mu.Lock()
	refuse := e.dead || e.down[dest]
	e.mu.Unlock()
	if refuse {
		http.Error(w, "down", http.StatusServiceUnavailable)
		return
	}
	ws, err := rwcUp.Upgrade(w, r, nil)
	if err != nil {
		return
	}
	c := &rwcConn{dest: dest, ws: ws, open: true, recv: map[string]bool{}}
	e.mu.Lock()
	if e.dead || e.down[dest] {
		e.mu.Unlock()
		ws.Close()
		return
	}
	e.conns = append(e.conns, c)
	e.accepted[dest]++
	e.mu.Unlock()
	for {
		_, data, err := ws.ReadMessage()
		if err != nil {
			break
		}
		e.mu.Lock()
		c.recv[string(data)] = true
		e.mu.Unlock()
	}
	e.mu.Lock()
	c.open = false
	e.mu.Unlock()
	ws.Close()
}

func (e *rwcEnv) openOn(dest string) (n int) {
	for _, c := range e.conns {
		if c.open && c.dest == dest {
			n++
		}
	}
	return
}

// closeOn closes (from the server side) every open socket to dest
func (e *rwcEnv) closeOn(dest string, all bool) {
	e.mu.Lock()
	var cs []*rwcConn
	for _, c := range e.conns {
		if c.open && (all || c.dest == dest) {
			c.open = false
			cs = append(cs, c)
		}
	}
	e.mu.Unlock()
	for _, c := range cs {
		c.ws.Close()
	}
}

func (e *rwcEnv) got(payload string) (ds []string) {
	e.mu.Lock()
	defer e.mu.Unlock()
	for _, c := range e.conns {
		if c.recv[payload] {
			ds = append(ds, c.dest)
		}
	}
	return
}

func rwcJoin(xs []string) string {
	sort.Strings(xs)
	return strings.Join(xs, ",")
}

func rwcAtoi(s string) int {
	v, err := strconv.Atoi(s)
	if err != nil {
		return 0
	}
	return v
}

// rwcIndex: 1..6 decimal digits, nothing else
func rwcIndex(s string) (int, bool) { return rwcDigits(s, 6) }

func rwcDigits(s string, max int) (int, bool) {
	if len(s) == 0 || len(s) > max {
		return 0, false
	}
	for _, c := range s {
		if c < '0' || c > '9' {
			return 0, false
		}
	}
	return rwcAtoi(s), true
}

func rwcIsHex(s string) bool {
	_, ok := unhex(s)
	return ok && s == strings.ToLower(s)
}

func init() {
	register("rwc", func(args []string) {
		rwcOnce.Do(rwcServe)
		runLines(func() func(fs []string) string {
			if rwcStop != nil {
				rwcStop()
			}
			rwcCaseNo++
			env := &rwcEnv{prefix: fmt.Sprintf("/c%d/", rwcCaseNo), down: map[string]bool{}, accepted: map[string]int{},
				ports: map[string]*rwcOwnPort{}}
			rwcCurMu.Lock()
			rwcCur = env
			rwcCurMu.Unlock()
			base := fmt.Sprintf("ws://127.0.0.1:%d%s", rwcPort, env.prefix)
			// the port of a destination with a port of its own: reserved at its first mention, listened on unless down
			ownPort := func(hexDest string) *rwcOwnPort {
				p := env.ports[hexDest]
				if p == nil {
					p = rwcReserve()
					env.ports[hexDest] = p
					env.mu.Lock()
					dn := env.down[hexDest]
					env.mu.Unlock()
					if !dn {
						p.listen()
					}
				}
				return p
			}
			url := func(hexDest string) string {
				if rwcOwn(hexDest) {
					return fmt.Sprintf("ws://127.0.0.1:%d%s%s", ownPort(hexDest).port, env.prefix, hexDest)
				}
				return base + hexDest
			}
			destOf := func(name string) string {
				const host = "ws://127.0.0.1:"
				if strings.HasPrefix(name, host) {
					rest := strings.TrimLeft(name[len(host):], "0123456789")
					if strings.HasPrefix(rest, env.prefix) {
						return strings.TrimPrefix(rest, env.prefix)
					}
				}
				return "?" + enhex(name)
			}

			closed := make(chan struct{})
			a := agg.New()
			go a.Run(closed)
			a.Add <- agg.Rule{Stream: "stream/a", Feeds: []string{"fa"}}
			a.Add <- agg.Rule{Stream: "stream/b", Feeds: []string{"fa", "fb"}}
			h := rwc.New(a)
			go h.Run(closed)
			rwcStop = func() {
				env.mu.Lock()
				env.dead = true
				env.mu.Unlock()
				close(closed) // rwc.Hub.Run cancels every client on the way out
				env.closeOn("", true)
				for _, p := range env.ports {
					p.release()
				}
			}

			seen := map[*rwc.Client]bool{}
			opn := 0
			// once a wait of this case has run into its bound the case has failed (or is a shrink
			// candidate with stale expectations): later waits are cut short so a failing run stays fast
			late := false

			barrier := func() bool {
				select {
				case h.Delete <- rwcBarrierID:
					return true
				case <-time.After(5 * time.Second):
					return false
				}
			}
			// everything rwc handed to agg has been applied by agg and by the inner hub
			deepBarrier := func() bool {
				if !barrier() {
					return false
				}
				select {
				case a.Add <- agg.Rule{Stream: "deleteAll"}: // refused by agg: a pure no-op
				case <-time.After(5 * time.Second):
					return false
				}
				select {
				case a.Hub.Broadcast <- hub.Message{Sender: hub.Client{Topic: rwcBarrierID, Name: "verif"}}:
				case <-time.After(5 * time.Second):
					return false
				}
				return true
			}
			noteClients := func() {
				for _, c := range h.Clients {
					seen[c] = true
				}
			}
			// deliver sends (again) and waits for k receipts
			deliver := func(payload string, k int, send func() bool) string {
				for try := 0; try < 3; try++ {
					if late && try > 0 {
						break
					}
					if !send() {
						return "stuck"
					}
					deadline := time.Now().Add(400 * time.Millisecond)
					if late {
						deadline = time.Now().Add(100 * time.Millisecond)
					}
					for len(env.got(payload)) < k && time.Now().Before(deadline) {
						time.Sleep(time.Millisecond)
					}
					if len(env.got(payload)) >= k {
						break
					}
					if try == 2 {
						late = true
					}
				}
				time.Sleep(40 * time.Millisecond)
				return "rx=" + rwcJoin(env.got(payload))
			}

			return func(fs []string) string {
				opn++
				if len(fs) == 0 {
					return "bad-op"
				}
				switch {
				case fs[0] == "add" && len(fs) == 4:
					id, ok1 := unhex(fs[1])
					st, ok2 := unhex(fs[2])
					if !ok1 || !ok2 || !rwcIsHex(fs[1]) || !rwcIsHex(fs[2]) || !rwcIsHex(fs[3]) {
						return "bad-op"
					}
					select {
					case h.Add <- rwc.Rule{ID: id, Stream: st, Destination: url(fs[3])}:
					case <-time.After(5 * time.Second):
						return "stuck"
					}
					if !barrier() {
						return "stuck"
					}
					noteClients()
					return "ok"
				case fs[0] == "del" && len(fs) == 2:
					id, ok := unhex(fs[1])
					if !ok || !rwcIsHex(fs[1]) {
						return "bad-op"
					}
					select {
					case h.Delete <- id:
					case <-time.After(5 * time.Second):
						return "stuck"
					}
					if !barrier() {
						return "stuck"
					}
					return "ok"
				case fs[0] == "dell" && len(fs) == 2:
					// delete the k-th rule of the hub's own listing (ids sorted by their hex form) BY THE ID
					// IT IS LISTED UNDER -- what an API user does after GET destinations/all -- and say which
					k, ok := rwcIndex(fs[1])
					if !ok {
						return "bad-op"
					}
					if !barrier() {
						return "stuck"
					}
					var ids []string
					for id := range h.Rules {
						ids = append(ids, enhex(id))
					}
					if len(ids) == 0 {
						return "deleted=none"
					}
					sort.Strings(ids)
					hid := ids[k%len(ids)]
					id, _ := unhex(hid)
					select {
					case h.Delete <- id:
					case <-time.After(5 * time.Second):
						return "stuck"
					}
					if !barrier() {
						return "stuck"
					}
					return "deleted=" + hid
				case fs[0] == "down" && len(fs) == 2 && rwcIsHex(fs[1]):
					env.mu.Lock()
					env.down[fs[1]] = true
					env.mu.Unlock()
					if rwcOwn(fs[1]) {
						ownPort(fs[1]).unlisten() // from now on nothing listens on its port
					}
					env.closeOn(fs[1], false)
					return "ok"
				case fs[0] == "up" && len(fs) == 2 && rwcIsHex(fs[1]):
					env.mu.Lock()
					delete(env.down, fs[1])
					env.mu.Unlock()
					if rwcOwn(fs[1]) && !ownPort(fs[1]).listen() {
						return "port-lost" // environment failure: somebody else took the port while it was closed
					}
					return "ok"
				case fs[0] == "idle" && len(fs) == 2:
					ms, ok := rwcDigits(fs[1], 5)
					if !ok {
						return "bad-op"
					}
					if ms > 20000 {
						ms = 20000
					}
					time.Sleep(time.Duration(ms) * time.Millisecond)
					return "ok"
				case fs[0] == "drop" && len(fs) == 2 && rwcIsHex(fs[1]):
					env.closeOn(fs[1], false)
					return "ok"
				case fs[0] == "await" && (len(fs) == 4 || (len(fs) == 5 && fs[4] == "slow")) && rwcIsHex(fs[1]):
					n, t := rwcAtoi(fs[2]), rwcAtoi(fs[3])
					limit := 2 * time.Second
					if len(fs) == 5 {
						limit = 12 * time.Second
					}
					if late {
						limit = 150 * time.Millisecond
					}
					deadline := time.Now().Add(limit)
					for {
						env.mu.Lock()
						gn, gt := env.openOn(fs[1]), env.accepted[fs[1]]
						env.mu.Unlock()
						if (gn == n && gt == t) || !time.Now().Before(deadline) {
							if !(gn == n && gt == t) {
								late = true
								// what did the most recent socket to this destination carry?
								env.mu.Lock()
								last := -1
								for _, c := range env.conns {
									if c.dest == fs[1] {
										last = len(c.recv)
									}
								}
								env.mu.Unlock()
								if last >= 0 {
									return fmt.Sprintf("n=%d t=%d last=%d", gn, gt, last)
								}
							}
							return fmt.Sprintf("n=%d t=%d", gn, gt)
						}
						time.Sleep(time.Millisecond)
					}
				case fs[0] == "bcast" && ((len(fs) == 5 && fs[2] == "ext") || (len(fs) == 6 && fs[2] == "as")):
					topic, ok := unhex(fs[1])
					name := "ext"
					rest := fs[3:]
					if fs[2] == "as" {
						if !rwcIsHex(fs[3]) {
							return "bad-op"
						}
						name = url(fs[3])
						rest = fs[4:]
					}
					if !ok || !rwcIsHex(fs[1]) || !rwcIsHex(rest[0]) {
						return "bad-op"
					}
					payload := fmt.Sprintf("%d|%s", opn, rest[0])
					return deliver(payload, rwcAtoi(rest[1]), func() bool {
						select {
						case a.Broadcast <- hub.Message{Data: []byte(payload), Type: websocket.BinaryMessage,
							Sender: hub.Client{Name: name, Topic: topic}, Sent: time.Now()}:
							return true
						case <-time.After(5 * time.Second):
							return false
						}
					})
				case fs[0] == "inject" && len(fs) == 4:
					if !rwcIsHex(fs[1]) || !rwcIsHex(fs[2]) {
						return "bad-op"
					}
					payload := fmt.Sprintf("%d|%s", opn, fs[2])
					return deliver(payload, rwcAtoi(fs[3]), func() bool {
						env.mu.Lock()
						var cs []*rwcConn
						for _, c := range env.conns {
							if c.open && c.dest == fs[1] {
								cs = append(cs, c)
							}
						}
						env.mu.Unlock()
						for i, c := range cs {
							if i > 0 {
								time.Sleep(10 * time.Millisecond)
							}
							_ = c.ws.WriteMessage(websocket.BinaryMessage, []byte(payload))
						}
						return true
					})
				case fs[0] == "conns" && len(fs) == 1:
					env.mu.Lock()
					var ds []string
					for _, c := range env.conns {
						if c.open {
							ds = append(ds, c.dest)
						}
					}
					env.mu.Unlock()
					return "open=" + rwcJoin(ds)
				case fs[0] == "rules" && len(fs) == 1:
					if !deepBarrier() {
						return "stuck"
					}
					var rs, cs, regs []string
					for id, r := range h.Rules {
						rs = append(rs, enhex(id)+":"+enhex(r.Stream)+":"+destOf(r.Destination))
					}
					live := map[*rwc.Client]bool{}
					for id, c := range h.Clients {
						live[c] = true
						cs = append(cs, enhex(id)+":"+destOf(c.Messages.Name))
					}
					for topic, m := range a.Hub.Clients {
						for c := range m {
							regs = append(regs, destOf(c.Name)+"@"+enhex(topic))
						}
					}
					orphans := 0
					for c := range seen {
						if !live[c] && c.Context.Err() == nil {
							orphans++
						}
					}
					for c := range live {
						if c.Context.Err() != nil {
							orphans++ // a client still listed whose context is already cancelled
						}
					}
					return fmt.Sprintf("rules=%s clients=%s regs=%s orphans=%d", rwcJoin(rs), rwcJoin(cs), rwcJoin(regs), orphans)
				}
				return "bad-op"
			}
		})
	})
}
