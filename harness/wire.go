//go:build verif

package main

import (
	"encoding/hex"
	"fmt"
	"sort"
	"strconv"
	"strings"
)

func fields(line string) []string {
	return strings.Fields(line)
}

// unhex decodes a string field: lower-case hex of the bytes, "-" is the empty string
func unhex(s string) (string, bool) {
	if s == "-" {
		return "", true
	}
	b, err := hex.DecodeString(s)
	if err != nil {
		return "", false
	}
	return string(b), true
}

func enhex(s string) string {
	if s == "" {
		return "-"
	}
	return hex.EncodeToString([]byte(s))
}

func atoi64(s string) (int64, bool) {
	v, err := strconv.ParseInt(s, 10, 64)
	return v, err == nil
}

// hexSet renders a set of strings canonically: hex each, sort, dedupe, join with ","
func hexSet(xs []string) string {
	hs := make([]string, 0, len(xs))
	seen := map[string]bool{}
	for _, x := range xs {
		h := enhex(x)
		if !seen[h] {
			seen[h] = true
			hs = append(hs, h)
		}
	}
	sort.Strings(hs)
	return strings.Join(hs, ",")
}

// canonPanic maps a recovered value to a small stable vocabulary
func canonPanic(r interface{}) string {
	s := fmt.Sprint(r)
	switch {
	case strings.Contains(s, "nil map"):
		return "nil-map"
	case strings.Contains(s, "close of closed channel"):
		return "close-closed"
	case strings.Contains(s, "close of nil channel"):
		return "close-nil"
	case strings.Contains(s, "nil pointer"):
		return "nil-deref"
	case strings.Contains(s, "send on closed channel"):
		return "send-closed"
	case strings.Contains(s, "index out of range"), strings.Contains(s, "slice bounds"):
		return "bounds"
	}
	return "other:" + strings.ReplaceAll(s, " ", "_")
}
