//go:build verif

package main

import (
	"fmt"
	"net"
	"runtime"
	"strconv"
	"strings"
	"sync"
	"syscall"
	"time"

	"github.com/gorilla/websocket"
)

// mode leak (C13): cycles of connect + end (by each cause) and of refused attempts against one real relay
// instance; afterwards the hub, the cancel-channel store, the code store and the goroutine count must be
// back at their baseline, and the relay must have closed every socket it no longer serves.
func init() {
	register("leak", func(args []string) {
		var cur *relayInst
		runLines(func() func(fs []string) string {
			if cur != nil {
				cur.shutdown()
				cur = nil
			}
			var r *relayInst
			base := 0
			return func(fs []string) string {
				if r == nil {
					r = newRelayInst(false, 4)
					cur = r
				}
				return withTimeout(90*time.Second, func() string { return leakOp(r, &base, fs) })
			}
		})
		if cur != nil {
			cur.shutdown()
		}
	})
}

func settleGoroutines() int {
	last, stable := -1, 0
	for i := 0; i < 400; i++ {
		runtime.Gosched()
		n := runtime.NumGoroutine()
		if n == last {
			stable++
			if stable >= 15 {
				return n
			}
		} else {
			last, stable = n, 0
		}
		time.Sleep(2 * time.Millisecond)
	}
	return last
}

func (r *relayInst) footprint() (members, dcs, pbc int) {
	for name := range r.members() {
		if !strings.HasPrefix(name, "stats-generator-") {
			members++
		}
	}
	d := r.hub.VDcs()
	d.Lock()
	dcs, pbc = len(d.ChildrenByParent), len(d.ParentByChild)
	d.Unlock()
	return
}

// open one admitted connection under (topic, bid) with the given remaining lifetime (virtual seconds)
func (r *relayInst) openConn(topic, bid string, life int64) (*websocket.Conn, bool) {
	r.nowMu.Lock()
	now := *r.now
	r.nowMu.Unlock()
	sc := enhex("read") + "," + enhex("write")
	tok := fmt.Sprintf("alg=HS256;sig=good;exp=i%d;nbf=i%d;iat=i%d;aud=l%s;scopes=l%s;topic=s%s;prefix=s%s;bid=s%s",
		now+life, now-10, now-10, enhex(relayAudience), sc, enhex(topic), enhex("session"), enhex(bid))
	st, body, _ := r.request("POST", "/session/"+topic, buildToken(tok))
	if st != 200 {
		return nil, false
	}
	i := strings.Index(string(body), "?code=")
	if i < 0 {
		return nil, false
	}
	code := strings.TrimRight(string(body)[i+6:], "\"}\n ")
	c, _, err := websocket.DefaultDialer.Dial("ws://127.0.0.1:"+strconv.Itoa(r.wsPort)+"/session/"+topic+"?code="+code, nil)
	if err != nil {
		return nil, false
	}
	return c, true
}

// closedByServer: does a read on c fail (the relay closed the socket) within d?
func closedByServer(c *websocket.Conn, d time.Duration) bool {
	c.SetReadDeadline(time.Now().Add(d))
	for {
		_, _, err := c.ReadMessage()
		if err != nil {
			if ne, ok := err.(net.Error); ok && ne.Timeout() {
				return false
			}
			return true
		}
	}
}

func cpuTime() time.Duration {
	var ru syscall.Rusage
	syscall.Getrusage(syscall.RUSAGE_SELF, &ru)
	return time.Duration(ru.Utime.Nano() + ru.Stime.Nano())
}

func leakOp(r *relayInst, base *int, fs []string) string {
	if len(fs) == 0 {
		return "bad-op"
	}
	switch fs[0] {
	case "baseline":
		// warm up every code path once so that lazily started goroutines are part of the baseline
		if c, ok := r.openConn("warm", "bw", 3600); ok {
			c.Close()
		}
		for i := 0; i < 2000; i++ {
			if m, _, _ := r.footprint(); m == 0 {
				break
			}
			time.Sleep(time.Millisecond)
		}
		*base = settleGoroutines()
		return "ok"
	case "cycle":
		if len(fs) != 3 {
			return "bad-op"
		}
		n, _ := strconv.Atoi(fs[2])
		cause := fs[1]
		conns := []*websocket.Conn{}
		life := int64(3600)
		if cause == "expiry" {
			life = 1
		}
		for i := 0; i < n; i++ {
			c, ok := r.openConn("t"+strconv.Itoa(i%3), "b"+cause+strconv.Itoa(i%4), life)
			if !ok {
				return "open-failed"
			}
			conns = append(conns, c)
		}
		// every connection is fully joined before its end cause is applied (an admission still in progress when a
		// deny arrives is the race recorded as K2 under C07; it is not what this mode measures)
		for i := 0; i < 5000; i++ {
			if m, _, _ := r.footprint(); m >= n {
				break
			}
			time.Sleep(time.Millisecond)
		}
		serverClosed := 0
		switch cause {
		case "clientclose":
			for _, c := range conns {
				c.WriteMessage(websocket.CloseMessage, websocket.FormatCloseMessage(websocket.CloseNormalClosure, ""))
				c.Close()
			}
		case "netloss":
			for _, c := range conns {
				if tc, ok := c.UnderlyingConn().(*net.TCPConn); ok {
					tc.SetLinger(0) // RST
				}
				c.UnderlyingConn().Close()
			}
		case "deny":
			admin := buildToken(stressTok(1000000, "x", "x", []string{"relay:admin"}))
			for k := 0; k < 4; k++ {
				r.request("POST", "/bids/deny?bid=bdeny"+strconv.Itoa(k)+"&exp=1003600", admin)
			}
			var wg sync.WaitGroup
			var mu sync.Mutex
			for _, c := range conns {
				wg.Add(1)
				go func(c *websocket.Conn) {
					defer wg.Done()
					if closedByServer(c, 5*time.Second) {
						mu.Lock()
						serverClosed++
						mu.Unlock()
					}
					c.Close()
				}(c)
			}
			wg.Wait()
			for k := 0; k < 4; k++ {
				r.request("POST", "/bids/allow?bid=bdeny"+strconv.Itoa(k)+"&exp=1003600", admin)
			}
		case "expiry":
			var wg sync.WaitGroup
			var mu sync.Mutex
			for _, c := range conns {
				wg.Add(1)
				go func(c *websocket.Conn) {
					defer wg.Done()
					if closedByServer(c, 6*time.Second) {
						mu.Lock()
						serverClosed++
						mu.Unlock()
					}
					c.Close()
				}(c)
			}
			wg.Wait()
		default:
			return "bad-op"
		}
		for i := 0; i < 5000; i++ {
			if m, d, p := r.footprint(); m == 0 && d == 0 && p == 0 {
				break
			}
			time.Sleep(time.Millisecond)
		}
		m, d, p := r.footprint()
		g := settleGoroutines()
		return fmt.Sprintf("cycle members=%d dcs=%d pbc=%d codes=%d extra_goroutines=%d server_closed=%d", m, d, p, r.cs.GetCodeCount(), g-*base, serverClosed)
	case "refused":
		if len(fs) != 3 {
			return "bad-op"
		}
		n, _ := strconv.Atoi(fs[2])
		closed := 0
		for i := 0; i < n; i++ {
			url := "ws://127.0.0.1:" + strconv.Itoa(r.wsPort) + "/session/t1"
			switch fs[1] {
			case "nocode":
			case "badcode":
				url += "?code=00000000-0000-4000-8000-000000000000"
			case "usedcode":
				c0, ok := r.openConn("t1", "bu", 3600)
				if !ok {
					return "open-failed"
				}
				c0.Close()
				if len(r.codes) == 0 {
				}
				url += "?code=" + "11111111-1111-4111-8111-000000000000"
			}
			c, _, err := websocket.DefaultDialer.Dial(url, nil)
			if err != nil {
				return "dial-failed"
			}
			if closedByServer(c, 400*time.Millisecond) {
				closed++
			}
			c.Close()
		}
		for i := 0; i < 3000; i++ {
			if m, _, _ := r.footprint(); m == 0 {
				break
			}
			time.Sleep(time.Millisecond)
		}
		g := settleGoroutines()
		return fmt.Sprintf("refused closed_by_relay=%d of=%d extra_goroutines=%d", closed, n, g-*base)
	case "shutdown":
		before := settleGoroutines()
		close(r.closed)
		r.closed = make(chan struct{}) // so that the later shutdown() of this instance does not close twice
		time.Sleep(1500 * time.Millisecond)
		c0 := cpuTime()
		time.Sleep(400 * time.Millisecond)
		busy := cpuTime() - c0
		after := settleGoroutines()
		return fmt.Sprintf("shutdown goroutines_before=%d goroutines_after=%d cpu_ms_in_400ms=%d", before, after, busy.Milliseconds())
	}
	return "bad-op"
}
