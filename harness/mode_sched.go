//go:build verif

package main

import (
	"strconv"
	"strings"
	"sync"
	"time"

	"github.com/practable/relay/internal/verifhook"
)

// mode sched (C07): the real handlers are driven through the named scheduling points compiled in with
// -tags verif. A goroutine reaching a gated point parks there until the schedule releases it, so a model
// schedule (which request advances from which point, in which order) is replayed step for step on the
// real code. One booking (b1), one topic (t1), valid tokens.
type gatekeeper struct {
	mu      sync.Mutex
	gated   map[string]bool
	parked  map[string][]chan struct{}
	arrived *sync.Cond
}

func newGatekeeper() *gatekeeper {
	g := &gatekeeper{gated: map[string]bool{}, parked: map[string][]chan struct{}{}}
	g.arrived = sync.NewCond(&g.mu)
	return g
}

func (g *gatekeeper) point(name string) {
	g.mu.Lock()
	if !g.gated[name] {
		g.mu.Unlock()
		return
	}
	ch := make(chan struct{})
	g.parked[name] = append(g.parked[name], ch)
	g.arrived.Broadcast()
	g.mu.Unlock()
	<-ch
}

func (g *gatekeeper) waitFor(name string, d time.Duration) bool {
	deadline := time.Now().Add(d)
	for {
		g.mu.Lock()
		n := len(g.parked[name])
		g.mu.Unlock()
		if n > 0 {
			return true
		}
		if time.Now().After(deadline) {
			return false
		}
		time.Sleep(200 * time.Microsecond)
	}
}

func (g *gatekeeper) release(name string) bool {
	g.mu.Lock()
	defer g.mu.Unlock()
	q := g.parked[name]
	if len(q) == 0 {
		return false
	}
	close(q[0])
	g.parked[name] = q[1:]
	return true
}

func (g *gatekeeper) releaseAll() {
	g.mu.Lock()
	defer g.mu.Unlock()
	g.gated = map[string]bool{}
	for n, q := range g.parked {
		for _, ch := range q {
			close(ch)
		}
		delete(g.parked, n)
	}
}

func init() {
	register("sched", func(args []string) {
		var cur *relayInst
		var gk *gatekeeper
		runLines(func() func(fs []string) string {
			if gk != nil {
				gk.releaseAll()
			}
			if cur != nil {
				cur.shutdown()
				cur = nil
			}
			gk = newGatekeeper()
			g := gk
			verifhook.SetPoint(g.point)
			r := newRelayInst(false, 64)
			cur = r
			now := int64(1000000)
			admin := stressTok(now, "x", "x", []string{"relay:admin"})
			user := stressTok(now, "t1", "b1", []string{"read", "write"})
			results := []chan string{}
			simplify := func(op, res string) string {
				switch op {
				case "session", "deny", "allow":
					return strings.SplitN(res, " ", 2)[0]
				case "ws":
					return strings.SplitN(res, " ", 2)[0]
				}
				return res
			}
			return func(fs []string) string {
				if len(fs) == 0 {
					return "bad-op"
				}
				switch fs[0] {
				case "gate":
					g.mu.Lock()
					g.gated = map[string]bool{}
					if len(fs) == 2 && fs[1] != "-" {
						for _, n := range strings.Split(fs[1], ",") {
							g.gated[n] = true
						}
					}
					g.mu.Unlock()
					return "ok"
				case "start":
					if len(fs) < 2 {
						return "bad-op"
					}
					var op []string
					switch fs[1] {
					case "session":
						op = []string{"session", user, enhex("t1")}
					case "deny":
						op = []string{"deny", admin, "s" + enhex("b1"), "s" + enhex(strconv.FormatInt(now+500, 10))}
					case "allow":
						op = []string{"allow", admin, "s" + enhex("b1"), "s" + enhex(strconv.FormatInt(now+500, 10))}
					case "ws":
						if len(fs) != 3 {
							return "bad-op"
						}
						op = []string{"ws", enhex("/session/t1"), fs[2]}
					default:
						return "bad-op"
					}
					ch := make(chan string, 1)
					results = append(results, ch)
					kind := fs[1]
					go func() { ch <- simplify(kind, safely(func() string { return relayOp(r, op) })) }()
					return "started h" + strconv.Itoa(len(results)-1)
				case "wait":
					if len(fs) != 2 {
						return "bad-op"
					}
					if g.waitFor(fs[1], 3*time.Second) {
						return "at " + fs[1]
					}
					return "timeout"
				case "release":
					if len(fs) != 2 {
						return "bad-op"
					}
					if g.release(fs[1]) {
						return "ok"
					}
					return "none"
				case "join":
					if len(fs) != 2 || len(fs[1]) < 2 {
						return "bad-op"
					}
					k, err := strconv.Atoi(fs[1][1:])
					if err != nil || k < 0 || k >= len(results) {
						return "bad-op"
					}
					select {
					case res := <-results[k]:
						results[k] <- res
						return res
					case <-time.After(15 * time.Second):
						return "stuck"
					}
				case "obs":
					// let the relay's own goroutines (hub, crossbar listener, tear-down) settle first
					for i := 0; i < 3000; i++ {
						pending := len(r.denyCh) > 0
						for _, m := range r.hub.VMembers() {
							select {
							case <-m.C.VDenied():
								pending = true
							default:
							}
						}
						if !pending {
							break
						}
						time.Sleep(time.Millisecond)
					}
					n := 0
					for name := range r.members() {
						if !strings.HasPrefix(name, "stats-generator-") {
							n++
						}
					}
					return "denied=" + strconv.FormatBool(r.ds.IsDenied("b1"))[:1] + " members=" + strconv.Itoa(n) + " codes=" + strconv.Itoa(r.cs.GetCodeCount())
				}
				return "bad-op"
			}
		})
		if gk != nil {
			gk.releaseAll()
		}
		if cur != nil {
			cur.shutdown()
		}
	})
}
