//go:build verif

package main

// mode flush (C17): the real ingest paths of the host (vw.handleTs behind an HTTP server with a piped
// request body, vw.handleWs over a websocket, tcpconnect.HandleConn over a loopback TCP pair, and
// the rwc destination client towards a local websocket sink), fed with generated chunks and gaps,
// observed by subscribers of different queue depths and read delays.
//
//   cfg <path> <max> <sub,sub,..|->    describe a new stream (path: ts | ws | dst | tcp)      -> ok
//   w <hex> <gap-ms> <b|t>             next chunk / message, then pause gap-ms               -> ok
//   run                                execute all described streams concurrently            -> results
//
// result of one stream:  c0=<items> c1=<items> ...   (streams separated by " | ")
// items: idx/len/type/hex joined by ","  or "-" when nothing was read.
//   idx  = index of the message in the lossless tap's sequence, identified by the hub.Message.Sent
//          stamp (hub.Client consumers), "?" where no such metadata exists (websocket / tcp consumers)
//   len  = length of the slice when it was received, hex = its bytes WHEN THE CONSUMER READ THEM
//
// consumers (c0 is always the lossless tap on hub paths: Send depth 8192, copies at once):
//   h<depth>:<mode>   hub.Client with that Send depth; mode e = reads only at the end, p = receives and
//                     copies at once, k = receives at once but looks at the bytes only at the end,
//                     s<ms> = receives, waits ms, then looks at the bytes
//   w:<mode>          real websocket client of /ws/{feed} (egress through handleWs.writePump); p | s<ms>
//   d:<mode>          real rwc destination (Send depth 2) dialling a local websocket sink; p | s<ms>
//   c:<mode>          (tcp) the receiver of TCPconnect.In; p | k | s<ms> (waits BEFORE each receive, keeps)

import (
	"context"
	"encoding/hex"
	"fmt"
	"io"
	"net"
	"net/http"
	"net/http/httptest"
	"strconv"
	"strings"
	"sync"
	"sync/atomic"
	"time"

	"github.com/gorilla/mux"
	"github.com/gorilla/websocket"
	"github.com/practable/relay/internal/agg"
	"github.com/practable/relay/internal/hub"
	"github.com/practable/relay/internal/rwc"
	"github.com/practable/relay/internal/tcpconnect"
	"github.com/practable/relay/internal/vw"
)

const flushVwMax = 1024000 // maxFrameBytes in handleTs (not configurable)

type flushChunk struct {
	data []byte
	gap  int
	typ  int
}

type flushSpec struct {
	path   string
	max    int
	subs   []string
	chunks []flushChunk
}

type flushItem struct {
	sent time.Time
	has  bool // sent stamp available
	ln   int
	typ  int
	ref  []byte // the slice as received (shared with the sender until copied)
	data []byte // the bytes as read
	read bool
}

func (it *flushItem) look() {
	if !it.read {
		it.data = append([]byte(nil), it.ref...)
		it.read = true
	}
}

type flushConsumer interface {
	finish() []*flushItem
}

// ---------------------------------------------------------------- shared servers (one per process)

type flushEnvT struct {
	once  sync.Once
	vwSrv *httptest.Server
	sink  *httptest.Server
	mu    sync.Mutex
	apps  map[string]*vw.App
	sinks map[string]chan *websocket.Conn
	seq   int64
}

var flushEnv flushEnvT

func (e *flushEnvT) init() {
	e.once.Do(func() {
		e.apps = map[string]*vw.App{}
		e.sinks = map[string]chan *websocket.Conn{}
		r := mux.NewRouter()
		r.HandleFunc("/{key}/ts/{feed}", func(w http.ResponseWriter, rq *http.Request) {
			if app := e.app(mux.Vars(rq)["key"]); app != nil {
				app.VerifFlushHandleTs(w, rq)
			}
		})
		r.HandleFunc("/{key}/ws/{feed}", func(w http.ResponseWriter, rq *http.Request) {
			if app := e.app(mux.Vars(rq)["key"]); app != nil {
				app.VerifFlushHandleWs(w, rq)
			}
		})
		e.vwSrv = httptest.NewServer(r)
		up := websocket.Upgrader{CheckOrigin: func(*http.Request) bool { return true }}
		s := mux.NewRouter()
		s.HandleFunc("/sink/{key}", func(w http.ResponseWriter, rq *http.Request) {
			e.mu.Lock()
			ch := e.sinks[mux.Vars(rq)["key"]]
			e.mu.Unlock()
			if ch == nil {
				http.Error(w, "gone", http.StatusGone)
				return
			}
			c, err := up.Upgrade(w, rq, nil)
			if err != nil {
				return
			}
			select {
			case ch <- c:
			default:
				c.Close()
			}
		})
		e.sink = httptest.NewServer(s)
	})
}

func (e *flushEnvT) app(key string) *vw.App {
	e.mu.Lock()
	defer e.mu.Unlock()
	return e.apps[key]
}

func (e *flushEnvT) newKey() string {
	return "k" + strconv.FormatInt(atomic.AddInt64(&e.seq, 1), 10)
}

// ---------------------------------------------------------------- consumers

// tap: never misses, copies at once
type flushTap struct {
	c     *hub.Client
	mu    sync.Mutex
	items []*flushItem
	total int
	last  time.Time
	stop  chan struct{}
	done  chan struct{}
}

func newFlushTap(h *hub.Hub, topic string) *flushTap {
	t := &flushTap{c: &hub.Client{Hub: h, Name: "tap", Topic: topic, Send: make(chan hub.Message, 8192), Stats: hub.NewClientStats()},
		stop: make(chan struct{}), done: make(chan struct{}), last: time.Now()}
	go func() {
		defer close(t.done)
		for {
			select {
			case m := <-t.c.Send:
				t.take(m)
			case <-t.stop:
				for {
					select {
					case m := <-t.c.Send:
						t.take(m)
					default:
						return
					}
				}
			}
		}
	}()
	return t
}

func (t *flushTap) take(m hub.Message) {
	it := &flushItem{sent: m.Sent, has: true, ln: len(m.Data), typ: m.Type, ref: m.Data}
	it.look()
	t.mu.Lock()
	t.items = append(t.items, it)
	t.total += it.ln
	t.last = time.Now()
	t.mu.Unlock()
}

func (t *flushTap) progress() (int, int, time.Time) {
	t.mu.Lock()
	defer t.mu.Unlock()
	return len(t.items), t.total, t.last
}

func (t *flushTap) finish() []*flushItem {
	close(t.stop)
	<-t.done
	return t.items
}

type flushHubSub struct {
	c     *hub.Client
	mode  string
	wait  time.Duration
	items []*flushItem
	stop  chan struct{}
	done  chan struct{}
}

func parseFlushMode(mode string) (string, time.Duration, bool) {
	if mode == "e" || mode == "p" || mode == "k" {
		return mode, 0, true
	}
	if strings.HasPrefix(mode, "s") {
		ms, err := strconv.Atoi(mode[1:])
		if err == nil && ms >= 0 && ms <= 1000 {
			return "s", time.Duration(ms) * time.Millisecond, true
		}
	}
	return "", 0, false
}

func newFlushHubSub(h *hub.Hub, topic, name string, depth int, mode string, wait time.Duration) *flushHubSub {
	s := &flushHubSub{c: &hub.Client{Hub: h, Name: name, Topic: topic, Send: make(chan hub.Message, depth), Stats: hub.NewClientStats()},
		mode: mode, wait: wait, stop: make(chan struct{}), done: make(chan struct{})}
	go func() {
		defer close(s.done)
		if s.mode != "e" {
			for {
				select {
				case m := <-s.c.Send:
					it := &flushItem{sent: m.Sent, has: true, ln: len(m.Data), typ: m.Type, ref: m.Data}
					s.items = append(s.items, it)
					switch s.mode {
					case "p":
						it.look()
					case "s":
						select {
						case <-time.After(s.wait):
						case <-s.stop:
						}
						it.look()
					}
					continue
				case <-s.stop:
				}
				break
			}
		} else {
			<-s.stop
		}
		// the end: take what is still queued, then look at everything not looked at yet
		for {
			select {
			case m := <-s.c.Send:
				s.items = append(s.items, &flushItem{sent: m.Sent, has: true, ln: len(m.Data), typ: m.Type, ref: m.Data})
				continue
			default:
			}
			break
		}
		for _, it := range s.items {
			it.look()
		}
	}()
	return s
}

func (s *flushHubSub) finish() []*flushItem {
	close(s.stop)
	<-s.done
	return s.items
}

// a websocket reader (egress client of handleWs, or the sink a destination dials)
type flushWsReader struct {
	conn  *websocket.Conn
	wait  time.Duration
	mu    sync.Mutex
	items []*flushItem
	last  time.Time
	done  chan struct{}
}

func newFlushWsReader(conn *websocket.Conn, wait time.Duration) *flushWsReader {
	r := &flushWsReader{conn: conn, wait: wait, last: time.Now(), done: make(chan struct{})}
	go func() {
		defer close(r.done)
		for {
			mt, data, err := conn.ReadMessage()
			if err != nil {
				return
			}
			it := &flushItem{ln: len(data), typ: mt, ref: data}
			it.look()
			r.mu.Lock()
			r.items = append(r.items, it)
			r.last = time.Now()
			r.mu.Unlock()
			if r.wait > 0 {
				time.Sleep(r.wait)
			}
		}
	}()
	return r
}

func (r *flushWsReader) finish() []*flushItem {
	// in flight over the socket: wait until nothing arrived for a while
	deadline := time.Now().Add(400*time.Millisecond + 12*r.wait)
	for time.Now().Before(deadline) {
		r.mu.Lock()
		quiet := time.Since(r.last)
		r.mu.Unlock()
		if quiet > 30*time.Millisecond+r.wait {
			break
		}
		time.Sleep(5 * time.Millisecond)
	}
	r.conn.Close()
	<-r.done
	r.mu.Lock()
	defer r.mu.Unlock()
	return r.items
}

func fmtFlushItems(items []*flushItem, tap []*flushItem) string {
	if len(items) == 0 {
		return "-"
	}
	var sb strings.Builder
	next := 0
	for i, it := range items {
		if i > 0 {
			sb.WriteByte(',')
		}
		idx := "?"
		if it.has && tap != nil {
			for j := next; j < len(tap); j++ {
				if tap[j].sent == it.sent {
					idx = strconv.Itoa(j)
					next = j + 1
					break
				}
			}
		} else if tap == nil {
			idx = strconv.Itoa(i)
		}
		t := "o" + strconv.Itoa(it.typ)
		switch it.typ {
		case websocket.BinaryMessage:
			t = "b"
		case websocket.TextMessage:
			t = "t"
		}
		fmt.Fprintf(&sb, "%s/%d/%s/%s", idx, it.ln, t, hex.EncodeToString(it.data))
	}
	return sb.String()
}

// ---------------------------------------------------------------- one stream

func runFlushStream(sp *flushSpec) string {
	if sp.path == "tcp" {
		return runFlushTCP(sp)
	}
	e := &flushEnv
	e.init()
	key := e.newKey()
	topic := "feed"
	app := &vw.App{Hub: agg.New(), Closed: make(chan struct{})}
	// app.Closed is never closed: after shutdown handleTs's drain goroutine spins on the closed channel
	go app.Hub.Run(app.Closed)
	e.mu.Lock()
	e.apps[key] = app
	e.mu.Unlock()
	defer func() {
		e.mu.Lock()
		delete(e.apps, key)
		delete(e.sinks, key)
		e.mu.Unlock()
	}()
	base := "ws" + strings.TrimPrefix(e.vwSrv.URL, "http") + "/" + key

	tap := newFlushTap(app.Hub.Hub, topic)
	app.Hub.Register <- tap.c
	cons := []flushConsumer{tap}
	needSettle := false
	var rw *rwc.Hub
	startRwc := func() (*websocket.Conn, bool) {
		if rw != nil {
			return nil, false
		}
		ch := make(chan *websocket.Conn, 1)
		e.mu.Lock()
		e.sinks[key] = ch
		e.mu.Unlock()
		rw = rwc.New(app.Hub)
		go rw.Run(app.Closed)
		rw.Add <- rwc.Rule{ID: "d0", Stream: topic, Destination: "ws" + strings.TrimPrefix(e.sink.URL, "http") + "/sink/" + key}
		select {
		case c := <-ch:
			return c, true
		case <-time.After(3 * time.Second):
			return nil, false
		}
	}
	var cleanup []func()
	defer func() {
		for i := len(cleanup) - 1; i >= 0; i-- {
			cleanup[i]()
		}
	}()
	for i, s := range sp.subs {
		kind, mode, ok := strings.Cut(s, ":")
		if !ok {
			return "bad-sub"
		}
		m, wait, ok := parseFlushMode(mode)
		if !ok {
			return "bad-sub"
		}
		switch {
		case strings.HasPrefix(kind, "h"):
			depth, err := strconv.Atoi(kind[1:])
			if err != nil || depth < 0 || depth > 4096 {
				return "bad-sub"
			}
			hs := newFlushHubSub(app.Hub.Hub, topic, "s"+strconv.Itoa(i+1), depth, m, wait)
			app.Hub.Register <- hs.c
			cons = append(cons, hs)
		case kind == "w":
			c, _, err := websocket.DefaultDialer.Dial(base+"/ws/"+topic, nil)
			if err != nil {
				return "dial-failed"
			}
			cons = append(cons, newFlushWsReader(c, wait))
			needSettle = true
		case kind == "d":
			if sp.path == "dst" {
				return "bad-sub"
			}
			c, ok := startRwc()
			if !ok {
				return "destination-not-connected"
			}
			cons = append(cons, newFlushWsReader(c, wait))
			needSettle = true
		default:
			return "bad-sub"
		}
	}
	if needSettle {
		time.Sleep(15 * time.Millisecond) // handleWs registers its client after the handshake completes
	}

	// the source
	var write func(c flushChunk) error
	switch sp.path {
	case "ts":
		pr, pw := io.Pipe()
		ctx, cancel := context.WithCancel(context.Background())
		req, err := http.NewRequestWithContext(ctx, "POST", e.vwSrv.URL+"/"+key+"/ts/"+topic, pr)
		if err != nil {
			cancel()
			return "bad-request"
		}
		tr := &http.Transport{}
		go func() {
			resp, err := (&http.Client{Transport: tr}).Do(req)
			if err == nil {
				resp.Body.Close()
			}
		}()
		cleanup = append(cleanup, func() { pw.Close(); cancel(); tr.CloseIdleConnections() })
		write = func(c flushChunk) error { _, err := pw.Write(c.data); return err }
	case "ws":
		src, _, err := websocket.DefaultDialer.Dial(base+"/ws/"+topic, nil)
		if err != nil {
			return "dial-failed"
		}
		// the feed's own client must not be fed back its messages; whatever it receives is recorded as an echo
		cleanup = append(cleanup, func() { src.Close() })
		write = func(c flushChunk) error { return src.WriteMessage(c.typ, c.data) }
	case "dst":
		c, ok := startRwc()
		if !ok {
			return "destination-not-connected"
		}
		cleanup = append(cleanup, func() { c.Close() })
		go func() { // the remote end ignores what the host sends it
			for {
				if _, _, err := c.ReadMessage(); err != nil {
					return
				}
			}
		}()
		write = func(ch flushChunk) error { return c.WriteMessage(ch.typ, ch.data) }
	default:
		return "bad-path"
	}
	if rw != nil {
		cleanup = append(cleanup, func() { rw.Delete <- "deleteAll" })
	}

	total, burst, maxBurst := 0, 0, 0
	for _, c := range sp.chunks {
		if err := write(c); err != nil {
			return "write-failed"
		}
		total += len(c.data)
		burst += len(c.data)
		if burst > maxBurst {
			maxBurst = burst
		}
		if c.gap > 0 {
			burst = 0
			time.Sleep(time.Duration(c.gap) * time.Millisecond)
		}
	}
	// wait for the last flush / message
	quiet := 1500 * time.Millisecond
	if sp.path == "ts" && maxBurst > flushVwMax {
		quiet = 400 * time.Millisecond
	}
	wrote := time.Now()
	for {
		n, bytes, last := tap.progress()
		if sp.path == "ts" && bytes >= total {
			break
		}
		if sp.path != "ts" && n >= len(sp.chunks) {
			break
		}
		if last.Before(wrote) {
			last = wrote
		}
		if time.Since(last) > quiet {
			break
		}
		time.Sleep(time.Millisecond)
	}
	res := make([][]*flushItem, len(cons))
	// the tap last: every other consumer's messages are then in the tap's list
	for i := len(cons) - 1; i >= 0; i-- {
		res[i] = cons[i].finish()
	}
	var sb strings.Builder
	for i := range cons {
		if i > 0 {
			sb.WriteByte(' ')
		}
		fmt.Fprintf(&sb, "c%d=%s", i, fmtFlushItems(res[i], res[0]))
	}
	return sb.String()
}

func runFlushTCP(sp *flushSpec) string {
	if len(sp.subs) != 1 {
		return "bad-sub"
	}
	kind, mode, ok := strings.Cut(sp.subs[0], ":")
	if !ok || kind != "c" {
		return "bad-sub"
	}
	m, wait, ok := parseFlushMode(mode)
	if !ok || m == "e" {
		return "bad-sub"
	}
	l, err := net.Listen("tcp", "127.0.0.1:0")
	if err != nil {
		return "listen-failed"
	}
	defer l.Close()
	cl, err := net.Dial("tcp", l.Addr().String())
	if err != nil {
		return "dial-failed"
	}
	defer cl.Close()
	sv, err := l.Accept()
	if err != nil {
		return "accept-failed"
	}
	defer sv.Close()
	ctx, cancel := context.WithCancel(context.Background())
	defer cancel()
	c := tcpconnect.New().WithMaxFrameBytes(sp.max)
	go c.HandleConn(ctx, sv)

	var mu sync.Mutex
	var items []*flushItem
	got := 0
	last := time.Now()
	stop := make(chan struct{})
	done := make(chan struct{})
	go func() {
		defer close(done)
		for {
			if m == "s" {
				select {
				case <-time.After(wait):
				case <-stop:
					return
				}
			}
			select {
			case f := <-c.In:
				it := &flushItem{ln: len(f), typ: websocket.BinaryMessage, ref: f}
				if m == "p" {
					it.look()
				}
				mu.Lock()
				items = append(items, it)
				got += len(f)
				last = time.Now()
				mu.Unlock()
			case <-stop:
				return
			}
		}
	}()
	total := 0
	for _, ch := range sp.chunks {
		if _, err := cl.Write(ch.data); err != nil {
			return "write-failed"
		}
		total += len(ch.data)
		if ch.gap > 0 {
			time.Sleep(time.Duration(ch.gap) * time.Millisecond)
		}
	}
	quiet := 1500 * time.Millisecond
	if total > sp.max {
		quiet = 300*time.Millisecond + 3*wait
	}
	wrote := time.Now()
	for {
		mu.Lock()
		g, la := got, last
		mu.Unlock()
		if g >= total {
			break
		}
		if la.Before(wrote) {
			la = wrote
		}
		if time.Since(la) > quiet {
			break
		}
		time.Sleep(time.Millisecond)
	}
	close(stop)
	<-done
	for _, it := range items {
		it.look()
	}
	return "c0=" + fmtFlushItems(items, nil)
}

// ---------------------------------------------------------------- the mode

func init() {
	register("flush", func(args []string) {
		runLines(func() func(fs []string) string {
			var specs []*flushSpec
			return func(fs []string) string {
				if len(fs) == 0 {
					return "bad-op"
				}
				switch {
				case fs[0] == "cfg" && len(fs) == 4:
					mx, err := strconv.Atoi(fs[2])
					if err != nil || mx < 0 {
						return "bad-op"
					}
					sp := &flushSpec{path: fs[1], max: mx}
					if fs[3] != "-" {
						sp.subs = strings.Split(fs[3], ",")
					}
					specs = append(specs, sp)
					return "ok"
				case fs[0] == "w" && len(fs) == 4:
					if len(specs) == 0 {
						return "bad-op"
					}
					d, ok := unhex(fs[1])
					gap, err := strconv.Atoi(fs[2])
					if !ok || err != nil || gap < 0 || gap > 1000 {
						return "bad-op"
					}
					typ := websocket.BinaryMessage
					if fs[3] == "t" {
						typ = websocket.TextMessage
					} else if fs[3] != "b" {
						return "bad-op"
					}
					sp := specs[len(specs)-1]
					sp.chunks = append(sp.chunks, flushChunk{data: []byte(d), gap: gap, typ: typ})
					return "ok"
				case fs[0] == "run" && len(fs) == 1:
					out := make([]string, len(specs))
					var wg sync.WaitGroup
					for i, sp := range specs {
						wg.Add(1)
						go func(i int, sp *flushSpec) {
							defer wg.Done()
							out[i] = safely(func() string { return runFlushStream(sp) })
						}(i, sp)
					}
					wg.Wait()
					specs = nil
					if len(out) == 0 {
						return "-"
					}
					return strings.Join(out, " | ")
				}
				return "bad-op"
			}
		})
	})
}
