//go:build verif

package main

// mode reconws: the real internal/reconws loops (and the public pkg/client wrapper) against a
// fault-injecting access (HTTP) + websocket server on loopback, scripted per attempt.
//
// One scenario per input line (see lean/Relay/Drv/Reconws.lean for the grammar). All lines are
// read first, scenarios run in parallel waves (each has its own listeners), answers are printed
// in input order, one per line. What is printed is what the SERVER saw, attempt by attempt,
// plus: attempts after cancel, did the loop function return within the observation window
// (twice the longest wait the loop could be about to make, 2*max for the standard scripts, +60ms), sockets the client never closed, messages delivered from abandoned sockets.
//
// Gaps between attempts are compared with the wait hints (h=..., produced by the Lean model):
// a gap within [hint-3ms, 1.25*hint+15ms] is printed as the nominal w<hint>, anything else as
// w!<measured>(<hint>). A scenario with a w! (or stuck) is re-run, up to 3 runs in all.

import (
	"bufio"
	"context"
	"fmt"
	"io"
	"net"
	"net/http"
	"os"
	"runtime"
	"runtime/debug"
	"strconv"
	"strings"
	"sync"
	"syscall"
	"time"

	"github.com/gorilla/websocket"
	"github.com/practable/relay/internal/reconws"
	"github.com/practable/relay/pkg/client"
)

func init() {
	register("reconws", func(args []string) { reconwsMain() })
}

// ---------------------------------------------------------------- parsing

type rwWsTok struct {
	kind   string // rst eof garb hang status ok
	status int
	k      int
	fin    byte // f r c w s
}

type rwAccTok struct {
	kind   string // rst eof hang resp
	status int
	body   byte // j e m n g z t h u p b
	ws     *rwWsTok
}

type rwScen struct {
	loop         string
	min, max     int
	factor       int
	ck           string // pre post dial conn wait
	cn, cj, cd   int
	down         int
	acc          []rwAccTok
	ws           []rwWsTok
	hints        []int
	hasHangToken bool
}

func rwNatOf(s string) (int, bool) {
	if len(s) == 0 || len(s) > 6 {
		return 0, false
	}
	for _, c := range s {
		if c < '0' || c > '9' {
			return 0, false
		}
	}
	v, err := strconv.Atoi(s)
	return v, err == nil
}

func rwStatusOf(s string) (int, bool) {
	v, ok := rwNatOf(s)
	if !ok || len(s) != 3 || v < 200 || v > 599 || v == 204 || v == 304 {
		return 0, false
	}
	return v, true
}

func rwParseWsTok(t string) (rwWsTok, bool) {
	switch t {
	case "wrst":
		return rwWsTok{kind: "rst"}, true
	case "weof":
		return rwWsTok{kind: "eof"}, true
	case "wgarb":
		return rwWsTok{kind: "garb"}, true
	case "whang":
		return rwWsTok{kind: "hang"}, true
	}
	p := strings.Split(t, ":")
	if len(p) == 3 && p[0] == "wok" {
		k, ok := rwNatOf(p[1])
		if !ok || k > 50 || len(p[2]) != 1 || !strings.Contains("frcws", p[2]) {
			return rwWsTok{}, false
		}
		return rwWsTok{kind: "ok", k: k, fin: p[2][0]}, true
	}
	if len(p) == 1 && strings.HasPrefix(t, "w") {
		s, ok := rwStatusOf(t[1:])
		if ok {
			return rwWsTok{kind: "status", status: s}, true
		}
	}
	return rwWsTok{}, false
}

func rwParseAccTok(t string) (rwAccTok, bool) {
	switch t {
	case "arst":
		return rwAccTok{kind: "rst"}, true
	case "aeof":
		return rwAccTok{kind: "eof"}, true
	case "ahang":
		return rwAccTok{kind: "hang"}, true
	}
	p := strings.Split(t, "/")
	if len(p) > 2 || len(p[0]) != 5 || p[0][0] != 'a' {
		return rwAccTok{}, false
	}
	st, ok := rwStatusOf(p[0][1:4])
	if !ok {
		return rwAccTok{}, false
	}
	b := p[0][4]
	if len(p) == 2 {
		w, ok := rwParseWsTok(p[1])
		if !ok || b != 'j' {
			return rwAccTok{}, false
		}
		return rwAccTok{kind: "resp", status: st, body: 'j', ws: &w}, true
	}
	if !strings.ContainsRune("emngzthupb", rune(b)) {
		return rwAccTok{}, false
	}
	return rwAccTok{kind: "resp", status: st, body: b}, true
}

func rwParseScen(fs []string) (*rwScen, bool) {
	if len(fs) > 0 && strings.HasPrefix(fs[len(fs)-1], "h=") {
		h := fs[len(fs)-1][2:]
		fs = fs[:len(fs)-1]
		sc, ok := rwParseScen2(fs)
		if !ok {
			return nil, false
		}
		if h != "" {
			for _, x := range strings.Split(h, ",") {
				v, err := strconv.Atoi(x)
				if err != nil {
					v = 0
				}
				sc.hints = append(sc.hints, v)
			}
		}
		return sc, true
	}
	return rwParseScen2(fs)
}

func rwParseScen2(fs []string) (*rwScen, bool) {
	if len(fs) < 7 || fs[0] != "run" {
		return nil, false
	}
	sc := &rwScen{loop: fs[1]}
	if sc.loop != "auth" && sc.loop != "plain" && sc.loop != "client" {
		return nil, false
	}
	var ok1, ok2, ok3 bool
	sc.min, ok1 = rwNatOf(fs[2])
	sc.max, ok2 = rwNatOf(fs[3])
	sc.factor, ok3 = rwNatOf(fs[4])
	if !ok1 || !ok2 || !ok3 {
		return nil, false
	}
	auth := sc.loop != "plain"
	c := strings.Split(fs[5], ":")
	sc.ck = c[0]
	var ok bool
	switch {
	case c[0] == "pre" && len(c) == 1:
	case c[0] == "post" && len(c) == 2 && auth:
		if sc.cn, ok = rwNatOf(c[1]); !ok {
			return nil, false
		}
	case c[0] == "dial" && len(c) == 2:
		if sc.cn, ok = rwNatOf(c[1]); !ok {
			return nil, false
		}
	case c[0] == "conn" && len(c) == 3:
		if sc.cn, ok = rwNatOf(c[1]); !ok {
			return nil, false
		}
		if sc.cj, ok = rwNatOf(c[2]); !ok {
			return nil, false
		}
	case c[0] == "wait" && len(c) == 3:
		if sc.cn, ok = rwNatOf(c[1]); !ok {
			return nil, false
		}
		if sc.cd, ok = rwNatOf(c[2]); !ok {
			return nil, false
		}
	default:
		return nil, false
	}
	toks := fs[6:]
	if d := strings.Split(toks[0], ":"); len(d) == 2 && d[0] == "down" {
		if sc.down, ok = rwNatOf(d[1]); !ok {
			return nil, false
		}
		toks = toks[1:]
	}
	if len(toks) == 0 {
		return nil, false
	}
	if sc.loop == "client" && !(sc.min == 1000 && sc.max == 10000 && sc.factor == 2) {
		return nil, false
	}
	for _, t := range toks {
		if auth {
			a, ok := rwParseAccTok(t)
			if !ok {
				return nil, false
			}
			if a.kind == "hang" || (a.ws != nil && a.ws.kind == "hang") {
				sc.hasHangToken = true
			}
			sc.acc = append(sc.acc, a)
		} else {
			w, ok := rwParseWsTok(t)
			if !ok {
				return nil, false
			}
			if w.kind == "hang" {
				sc.hasHangToken = true
			}
			sc.ws = append(sc.ws, w)
		}
	}
	return sc, true
}

// ---------------------------------------------------------------- one scenario

type rwInMsg struct {
	typ  int
	data string
}

type rwWatched struct {
	conn           net.Conn
	closedByClient bool
}

type rwAttemptObs struct {
	gap  time.Duration
	toks []string
}

type rwRun struct {
	sc        *rwScen
	mu        sync.Mutex
	att       []*rwAttemptObs
	cancelled bool
	cancelFn  context.CancelFunc
	cancelCh  chan struct{}
	after     int
	lastEnd   time.Time
	in        []rwInMsg
	inCh      chan struct{} // poked on every delivery
	watch     []*rwWatched
	held      []net.Conn
	release   chan struct{}
	wsPort    int
	send      func(typ int, data []byte) bool
	listened  bool
}

func (ru *rwRun) startAttempt(tok string) int {
	ru.mu.Lock()
	defer ru.mu.Unlock()
	now := time.Now()
	if ru.cancelled {
		ru.after++
	}
	ru.att = append(ru.att, &rwAttemptObs{gap: now.Sub(ru.lastEnd), toks: []string{tok}})
	return len(ru.att) - 1
}

func (ru *rwRun) addTok(idx int, tok string) {
	ru.mu.Lock()
	defer ru.mu.Unlock()
	if idx >= 0 && idx < len(ru.att) {
		ru.att[idx].toks = append(ru.att[idx].toks, tok)
	}
}

// a websocket dial of an Auth attempt: an attempt event too if it arrives after the cancel
func (ru *rwRun) dialSeen(idx int) {
	ru.mu.Lock()
	defer ru.mu.Unlock()
	if ru.cancelled {
		ru.after++
	}
	if idx >= 0 && idx < len(ru.att) {
		ru.att[idx].toks = append(ru.att[idx].toks, "D")
	}
}

// the server is about to do the thing that ends attempt idx for the client (answer, close,
// reset, Close frame ...): stamped BEFORE doing it, so that the next attempt can never be seen
// earlier than the stamp; measured gaps therefore include the few microseconds of that action
func (ru *rwRun) endAttempt(idx int) {
	ru.mu.Lock()
	ru.lastEnd = time.Now()
	ru.mu.Unlock()
	if ru.sc.ck == "wait" && ru.sc.cn == idx {
		d := time.Duration(ru.sc.cd) * time.Millisecond
		go func() {
			time.Sleep(d)
			ru.doCancel()
		}()
	}
}

func (ru *rwRun) doCancel() {
	ru.mu.Lock()
	if ru.cancelled {
		ru.mu.Unlock()
		return
	}
	ru.cancelled = true
	ru.mu.Unlock()
	ru.cancelFn()
	close(ru.cancelCh)
}

func (ru *rwRun) hold(c net.Conn) {
	ru.mu.Lock()
	ru.held = append(ru.held, c)
	ru.mu.Unlock()
}

func rwHijack(w http.ResponseWriter) net.Conn {
	hj, ok := w.(http.Hijacker)
	if !ok {
		return nil
	}
	c, _, err := hj.Hijack()
	if err != nil {
		return nil
	}
	return c
}

func rwRstClose(c net.Conn) {
	if t, ok := c.(*net.TCPConn); ok {
		t.SetLinger(0)
	}
	c.Close()
}

// block until the client gives up on this connection (EOF/reset) or the scenario is over;
// returns how long the client held on, or -1 when released first
func (ru *rwRun) holdUntilClientGivesUp(c net.Conn, t0 time.Time) time.Duration {
	ru.hold(c)
	gone := make(chan struct{})
	go func() {
		buf := make([]byte, 512)
		for {
			if _, err := c.Read(buf); err != nil {
				close(gone)
				return
			}
		}
	}()
	select {
	case <-gone:
		return time.Since(t0)
	case <-ru.release:
		return -1
	}
}

func (ru *rwRun) accessBody(idx int, b byte) string {
	switch b {
	case 'j':
		return fmt.Sprintf(`{"uri":"ws://127.0.0.1:%d/a%d"}`, ru.wsPort, idx)
	case 'e':
		return `{"uri":""}`
	case 'm':
		return `{"code":"401","message":"unauthorized"}`
	case 'n':
		return `null`
	case 'g':
		return `<html>oops</html>`
	case 'z':
		return ``
	case 't':
		return `{"uri":5}`
	case 'h':
		return fmt.Sprintf(`{"uri":"http://127.0.0.1:%d/a%d"}`, ru.wsPort, idx)
	case 'u':
		return fmt.Sprintf(`{"uri":"ws://a:b@127.0.0.1:%d/a%d"}`, ru.wsPort, idx)
	case 'p':
		return `{"uri":"ws://%zz"}`
	}
	return ``
}

func (ru *rwRun) accessHandler(w http.ResponseWriter, req *http.Request) {
	t0 := time.Now()
	idx := ru.startAttempt("P")
	if req.Method != "POST" || req.Header.Get("Authorization") != "tok" {
		ru.addTok(idx, "badreq")
	}
	if idx >= len(ru.sc.acc) {
		if c := rwHijack(w); c != nil {
			rwRstClose(c)
		}
		return
	}
	t := ru.sc.acc[idx]
	if ru.sc.ck == "post" && ru.sc.cn == idx {
		ru.doCancel()
	}
	switch t.kind {
	case "rst":
		c := rwHijack(w)
		ru.endAttempt(idx)
		if c != nil {
			rwRstClose(c)
		}
	case "eof":
		c := rwHijack(w)
		ru.endAttempt(idx)
		if c != nil {
			c.Close()
		}
	case "hang":
		if c := rwHijack(w); c != nil {
			if d := ru.holdUntilClientGivesUp(c, t0); d >= 0 {
				ru.addTok(idx, fmt.Sprintf("T%d", int(d.Round(time.Second)/time.Millisecond)))
				ru.endAttempt(idx)
			}
		}
	case "resp":
		if t.body == 'b' {
			c := rwHijack(w)
			ru.endAttempt(idx)
			if c != nil {
				fmt.Fprintf(c, "HTTP/1.1 %d X\r\nContent-Type: application/json\r\nContent-Length: 100\r\nConnection: close\r\n\r\n{\"uri\":", t.status)
				c.Close()
			}
			return
		}
		w.Header().Set("Content-Type", "application/json")
		w.Header().Set("Connection", "close")
		if t.body != 'j' {
			ru.endAttempt(idx) // stamped before the answer leaves: the client cannot move on earlier
		}
		w.WriteHeader(t.status)
		io.WriteString(w, ru.accessBody(idx, t.body))
		if f, ok := w.(http.Flusher); ok {
			f.Flush()
		}
	}
}

var rwUpgrader = websocket.Upgrader{CheckOrigin: func(r *http.Request) bool { return true }}

func (ru *rwRun) wsHandler(w http.ResponseWriter, req *http.Request) {
	t0 := time.Now()
	var idx int
	var t rwWsTok
	if ru.sc.loop == "plain" {
		idx = ru.startAttempt("D")
		if idx >= len(ru.sc.ws) {
			if c := rwHijack(w); c != nil {
				rwRstClose(c)
			}
			return
		}
		t = ru.sc.ws[idx]
	} else {
		v, err := strconv.Atoi(strings.TrimPrefix(req.URL.Path, "/a"))
		if err != nil || v < 0 || v >= len(ru.sc.acc) || ru.sc.acc[v].ws == nil {
			ru.mu.Lock()
			ru.after += 1000 // a dial nobody asked for
			ru.mu.Unlock()
			if c := rwHijack(w); c != nil {
				rwRstClose(c)
			}
			return
		}
		idx = v
		ru.dialSeen(idx)
		t = *ru.sc.acc[idx].ws
	}
	if ru.sc.ck == "dial" && ru.sc.cn == idx {
		ru.doCancel()
	}
	switch t.kind {
	case "rst":
		c := rwHijack(w)
		ru.endAttempt(idx)
		if c != nil {
			rwRstClose(c)
		}
	case "eof":
		c := rwHijack(w)
		ru.endAttempt(idx)
		if c != nil {
			c.Close()
		}
	case "garb":
		c := rwHijack(w)
		ru.endAttempt(idx)
		if c != nil {
			io.WriteString(c, "garbage garbage\r\n\r\n")
			c.Close()
		}
	case "status":
		ru.endAttempt(idx)
		w.Header().Set("Connection", "close")
		w.WriteHeader(t.status)
		io.WriteString(w, "no")
		if f, ok := w.(http.Flusher); ok {
			f.Flush()
		}
	case "hang":
		if c := rwHijack(w); c != nil {
			if d := ru.holdUntilClientGivesUp(c, t0); d >= 0 {
				ru.addTok(idx, fmt.Sprintf("T%d", int(d.Round(time.Second)/time.Millisecond)))
				ru.endAttempt(idx)
			}
		}
	case "ok":
		conn, err := rwUpgrader.Upgrade(w, req, nil)
		if err != nil {
			ru.addTok(idx, "upgrade-failed")
			return
		}
		ru.serveConn(idx, t, conn)
	}
}

func rwMsgType(m int) int {
	if m%2 == 0 {
		return websocket.TextMessage
	}
	return websocket.BinaryMessage
}

func (ru *rwRun) inCount() int {
	ru.mu.Lock()
	defer ru.mu.Unlock()
	return len(ru.in)
}

// j messages each way, pipelined; true when both directions arrived complete and in order
func (ru *rwRun) exchange(idx, j int, conn *websocket.Conn) bool {
	base := ru.inCount()
	okc := make(chan bool, 1)
	go func() { // application -> server
		for m := 0; m < j; m++ {
			if !ru.send(rwMsgType(m), []byte(fmt.Sprintf("c%d-%d", idx, m))) {
				okc <- false
				return
			}
		}
		okc <- true
	}()
	for m := 0; m < j; m++ { // server -> application
		if err := conn.WriteMessage(rwMsgType(m), []byte(fmt.Sprintf("s%d-%d", idx, m))); err != nil {
			return false
		}
	}
	good := true
	conn.SetReadDeadline(time.Now().Add(4 * time.Second))
	for m := 0; m < j; m++ {
		mt, data, err := conn.ReadMessage()
		if err != nil {
			return false
		}
		if mt != rwMsgType(m) || string(data) != fmt.Sprintf("c%d-%d", idx, m) {
			good = false
		}
	}
	conn.SetReadDeadline(time.Time{})
	if !<-okc {
		return false
	}
	deadline := time.After(4 * time.Second)
	for ru.inCount() < base+j {
		select {
		case <-ru.inCh:
		case <-time.After(20 * time.Millisecond):
		case <-deadline:
			return false
		}
	}
	ru.mu.Lock()
	defer ru.mu.Unlock()
	if len(ru.in) != base+j {
		return false
	}
	for m := 0; m < j; m++ {
		if ru.in[base+m].typ != rwMsgType(m) || ru.in[base+m].data != fmt.Sprintf("s%d-%d", idx, m) {
			good = false
		}
	}
	return good
}

// after a Close frame (X) look for the end of the TCP stream (F)
func (ru *rwRun) expectCloseThenEOF(idx int, conn *websocket.Conn) {
	conn.SetReadDeadline(time.Now().Add(3 * time.Second))
	for {
		_, _, err := conn.ReadMessage()
		if err == nil {
			ru.addTok(idx, "unexpected-msg")
			continue
		}
		if ce, ok := err.(*websocket.CloseError); ok && ce.Code != websocket.CloseAbnormalClosure {
			ru.addTok(idx, "X")
			if ce.Code != websocket.CloseNormalClosure {
				ru.addTok(idx, fmt.Sprintf("code%d", ce.Code))
			}
			under := conn.UnderlyingConn()
			under.SetReadDeadline(time.Now().Add(3 * time.Second))
			buf := make([]byte, 64)
			for {
				_, rerr := under.Read(buf)
				if rerr != nil {
					if ne, ok := rerr.(net.Error); ok && ne.Timeout() {
						return // still open
					}
					ru.addTok(idx, "F")
					return
				}
			}
		}
		if ne, ok := err.(net.Error); ok && ne.Timeout() {
			ru.addTok(idx, "no-close")
		} else {
			ru.addTok(idx, "F") // stream ended without a Close frame
		}
		return
	}
}

// keep an eye on a socket the client should have closed
func (ru *rwRun) watchConn(under net.Conn, reader func() error) {
	wc := &rwWatched{conn: under}
	ru.mu.Lock()
	ru.watch = append(ru.watch, wc)
	ru.mu.Unlock()
	go func() {
		for {
			if err := reader(); err != nil {
				select {
				case <-ru.release:
				default:
					ru.mu.Lock()
					wc.closedByClient = true
					ru.mu.Unlock()
				}
				return
			}
		}
	}()
}

func (ru *rwRun) serveConn(idx int, t rwWsTok, conn *websocket.Conn) {
	ru.addTok(idx, "C")
	ru.hold(conn.UnderlyingConn())
	sc := ru.sc
	cancelHere := (sc.ck == "conn" || sc.ck == "dial") && sc.cn == idx
	j := t.k
	if cancelHere {
		if sc.ck == "dial" {
			j = 0
		} else if sc.cj < j {
			j = sc.cj
		}
	}
	if ru.exchange(idx, j, conn) {
		ru.addTok(idx, fmt.Sprintf("M%d", j))
	} else {
		ru.addTok(idx, "M!")
	}
	if cancelHere {
		ru.doCancel() // no-op for dial: (done before the upgrade)
		ru.expectCloseThenEOF(idx, conn)
		return
	}
	under := conn.UnderlyingConn()
	switch t.fin {
	case 'f':
		ru.addTok(idx, "R")
		ru.endAttempt(idx)
		under.Close()
	case 'r':
		ru.addTok(idx, "R")
		ru.endAttempt(idx)
		rwRstClose(under)
	case 'c':
		ru.addTok(idx, "R")
		ru.endAttempt(idx) // the client moves on as soon as it has the Close frame
		conn.WriteControl(websocket.CloseMessage, websocket.FormatCloseMessage(websocket.CloseNormalClosure, ""), time.Now().Add(time.Second))
		conn.SetReadDeadline(time.Now().Add(3 * time.Second))
		_, _, err := conn.ReadMessage()
		if _, ok := err.(*websocket.CloseError); ok {
			ru.addTok(idx, "X")
		} else {
			ru.addTok(idx, "no-close-echo")
		}
		under.SetReadDeadline(time.Time{})
		buf := make([]byte, 64)
		ru.watchConn(under, func() error { _, e := under.Read(buf); return e })
	case 'w':
		// the application hands Dial a message gorilla refuses to write (type 0)
		ru.endAttempt(idx)
		if ru.send(0, []byte("bad")) {
			ru.addTok(idx, "E")
		} else {
			ru.addTok(idx, "E!")
		}
		ru.watchConn(under, func() error { _, _, e := conn.ReadMessage(); return e })
	case 's':
		<-ru.release
	}
}

// a socket that is bound (port reserved) but not listening: connects are refused
func rwBindOnly() (int, int, error) {
	fd, err := syscall.Socket(syscall.AF_INET, syscall.SOCK_STREAM|syscall.SOCK_CLOEXEC, 0)
	if err != nil {
		return 0, 0, err
	}
	if err := syscall.Bind(fd, &syscall.SockaddrInet4{Port: 0, Addr: [4]byte{127, 0, 0, 1}}); err != nil {
		syscall.Close(fd)
		return 0, 0, err
	}
	sa, err := syscall.Getsockname(fd)
	if err != nil {
		syscall.Close(fd)
		return 0, 0, err
	}
	return fd, sa.(*syscall.SockaddrInet4).Port, nil
}

func rwListenFd(fd int) (net.Listener, error) {
	if err := syscall.Listen(fd, 128); err != nil {
		return nil, err
	}
	f := os.NewFile(uintptr(fd), "bound")
	defer f.Close()
	return net.FileListener(f)
}

func rwRunScenario(sc *rwScen) (res string) {
	defer func() {
		if r := recover(); r != nil {
			res = "panic " + canonPanic(r)
		}
	}()
	ru := &rwRun{sc: sc, cancelCh: make(chan struct{}), inCh: make(chan struct{}, 1024), release: make(chan struct{})}
	ctx, cancel := context.WithCancel(context.Background())
	ru.cancelFn = cancel
	defer cancel()

	auth := sc.loop != "plain"
	// listeners: [0] access (auth only), [1] websocket; the first endpoint may start "down"
	var accessLn, wsLn net.Listener
	var downFd, accessPort int
	var err error
	mk := func() (net.Listener, int, error) {
		ln, err := net.Listen("tcp4", "127.0.0.1:0")
		if err != nil {
			return nil, 0, err
		}
		return ln, ln.Addr().(*net.TCPAddr).Port, nil
	}
	if auth {
		if sc.down > 0 {
			if downFd, accessPort, err = rwBindOnly(); err != nil {
				return "harness-error bind"
			}
		} else if accessLn, accessPort, err = mk(); err != nil {
			return "harness-error listen"
		}
		if wsLn, ru.wsPort, err = mk(); err != nil {
			return "harness-error listen"
		}
	} else {
		if sc.down > 0 {
			if downFd, ru.wsPort, err = rwBindOnly(); err != nil {
				return "harness-error bind"
			}
		} else if wsLn, ru.wsPort, err = mk(); err != nil {
			return "harness-error listen"
		}
	}
	accessSrv := &http.Server{Handler: http.HandlerFunc(ru.accessHandler)}
	wsSrv := &http.Server{Handler: http.HandlerFunc(ru.wsHandler)}
	accessSrv.SetKeepAlivesEnabled(false)
	wsSrv.SetKeepAlivesEnabled(false)
	if accessLn != nil {
		go accessSrv.Serve(accessLn)
	}
	if wsLn != nil {
		go wsSrv.Serve(wsLn)
	}
	defer func() {
		close(ru.release)
		accessSrv.Close()
		wsSrv.Close()
		ru.mu.Lock()
		if downFd != 0 && !ru.listened {
			ru.listened = true
			syscall.Close(downFd)
		}
		for _, c := range ru.held {
			c.Close()
		}
		ru.mu.Unlock()
	}()

	accessURL := fmt.Sprintf("http://127.0.0.1:%d/session/x", accessPort)
	wsURL := fmt.Sprintf("ws://127.0.0.1:%d/plain", ru.wsPort)
	done := make(chan struct{})
	stopIn := make(chan struct{})
	defer close(stopIn)
	deliver := func(typ int, data []byte) {
		ru.mu.Lock()
		ru.in = append(ru.in, rwInMsg{typ, string(data)})
		ru.mu.Unlock()
		select {
		case ru.inCh <- struct{}{}:
		default:
		}
	}

	var start func()
	if sc.loop == "client" {
		c := client.New()
		ru.send = func(typ int, data []byte) bool {
			select {
			case c.Send <- client.Message{Content: data, Type: typ}:
				return true
			case <-time.After(4 * time.Second):
				return false
			}
		}
		go func() {
			for {
				select {
				case m := <-c.Receive:
					deliver(m.Type, m.Content)
				case <-stopIn:
					return
				}
			}
		}()
		start = func() { c.Connect(ctx, accessURL, "tok"); close(done) }
	} else {
		r := reconws.New()
		r.Retry = reconws.RetryConfig{Factor: float64(sc.factor), Jitter: false,
			Min: time.Duration(sc.min) * time.Millisecond, Max: time.Duration(sc.max) * time.Millisecond,
			Timeout: time.Second}
		ru.send = func(typ int, data []byte) bool {
			select {
			case r.Out <- reconws.WsMessage{Data: data, Type: typ}:
				return true
			case <-time.After(4 * time.Second):
				return false
			}
		}
		go func() {
			for {
				select {
				case m := <-r.In:
					deliver(m.Type, m.Data)
				case <-stopIn:
					return
				}
			}
		}()
		if auth {
			start = func() { r.ReconnectAuth(ctx, accessURL, "tok"); close(done) }
		} else {
			start = func() { r.Reconnect(ctx, wsURL); close(done) }
		}
	}

	if sc.ck == "pre" {
		ru.doCancel()
	}
	launch := time.Now()
	ru.lastEnd = launch
	go start()
	if sc.down > 0 {
		go func() {
			time.Sleep(time.Until(launch.Add(time.Duration(sc.down) * time.Millisecond)))
			ru.mu.Lock()
			if ru.listened {
				ru.mu.Unlock()
				return
			}
			ru.listened = true
			ln, err := rwListenFd(downFd)
			ru.mu.Unlock()
			if err != nil {
				return
			}
			if auth {
				accessSrv.Serve(ln)
			} else {
				wsSrv.Serve(ln)
			}
		}()
	}

	budget := 8 * time.Second
	if sc.loop == "client" {
		budget = 25 * time.Second
	}
	if sc.hasHangToken {
		budget = 70 * time.Second
	}
	select {
	case <-ru.cancelCh:
	case <-time.After(budget):
		return "stuck"
	}
	time.Sleep(sc.window())
	ret := 0
	select {
	case <-done:
		ret = 1
	default:
	}
	// sockets the client never closed; do abandoned sockets still deliver?
	ru.mu.Lock()
	var open []*rwWatched
	for _, wc := range ru.watch {
		if !wc.closedByClient {
			open = append(open, wc)
		}
	}
	base := len(ru.in)
	ru.mu.Unlock()
	ghost := 0
	if len(open) > 0 {
		for _, wc := range open {
			wc.conn.SetWriteDeadline(time.Now().Add(time.Second))
			wc.conn.Write([]byte{0x81, 0x05, 'g', 'h', 'o', 's', 't'}) // one unmasked text frame
		}
		// every abandoned socket whose reader goroutine is alive delivers; give them 400 ms
		for waited := 0; waited < 400 && ghost < len(open); waited += 20 {
			time.Sleep(20 * time.Millisecond)
			ghost = 0
			ru.mu.Lock()
			for _, m := range ru.in[base:] {
				if m.data == "ghost" {
					ghost++
				}
			}
			ru.mu.Unlock()
		}
	}

	ru.mu.Lock()
	defer ru.mu.Unlock()
	var parts []string
	for i, a := range ru.att {
		hint := 0
		if i < len(sc.hints) {
			hint = sc.hints[i]
		}
		gms := float64(a.gap) / float64(time.Millisecond)
		toks := a.toks
		lo, hi := float64(hint)-3, float64(hint)*1.25+15
		if hint == 0 {
			lo = -1
		}
		if gms < lo || gms > hi {
			toks = append([]string{fmt.Sprintf("w!%d(%d)", int(gms), hint)}, toks...)
		} else if hint > 0 {
			toks = append([]string{fmt.Sprintf("w%d", hint)}, toks...)
		}
		parts = append(parts, fmt.Sprintf("a%d:%s", i, strings.Join(toks, ",")))
	}
	parts = append(parts, fmt.Sprintf("after=%d", ru.after), fmt.Sprintf("ret=%d", ret),
		fmt.Sprintf("open=%d", len(open)), fmt.Sprintf("ghost=%d", ghost))
	return strings.Join(parts, " ")
}

// how long the servers are rwWatched after the cancellation: twice the longest wait the loop
// could be about to make: 2*max; for a max above 1 s (library default 10 s) less when the script
// is too short to get there
func (sc *rwScen) window() time.Duration {
	if sc.loop == "client" {
		return 1500 * time.Millisecond // the public wrapper's waits start at 1 s
	}
	mn, mx, f := sc.min, sc.max, sc.factor
	if mn <= 0 {
		mn = 100
	}
	if mx <= 0 {
		mx = 10000
	}
	if f <= 0 {
		f = 2
	}
	if mx <= 1000 {
		return 2*time.Duration(mx)*time.Millisecond + 60*time.Millisecond
	}
	w := mn
	for i := 0; i < len(sc.acc)+len(sc.ws) && w < mx; i++ {
		w *= f
	}
	if w > mx || mx <= mn {
		w = mx
	}
	return 2*time.Duration(w)*time.Millisecond + 60*time.Millisecond
}

// ---------------------------------------------------------------- main loop: waves + retries

func reconwsMain() {
	debug.SetGCPercent(-1) // abandoned sockets must not be closed behind our back by finalizers
	par := 16
	if v, err := strconv.Atoi(os.Getenv("VERIF_RECONWS_PAR")); err == nil && v > 0 {
		par = v
	}
	in := bufio.NewReaderSize(os.Stdin, 1<<20)
	var lines [][]string
	for {
		line, err := in.ReadString('\n')
		if len(line) > 0 {
			lines = append(lines, fields(line))
		}
		if err != nil {
			break
		}
	}
	res := make([]string, len(lines))
	scs := make([]*rwScen, len(lines))
	var todo []int
	for i, fs := range lines {
		if len(fs) == 1 && fs[0] == "reset" {
			res[i] = "reset"
			continue
		}
		sc, ok := rwParseScen(fs)
		if !ok {
			res[i] = "bad-op"
			continue
		}
		scs[i] = sc
		todo = append(todo, i)
	}
	wave := func(ids []int, width int) {
		for s := 0; s < len(ids); s += width {
			e := s + width
			if e > len(ids) {
				e = len(ids)
			}
			var wg sync.WaitGroup
			for _, i := range ids[s:e] {
				wg.Add(1)
				go func(i int) {
					defer wg.Done()
					ts := time.Now()
					res[i] = rwRunScenario(scs[i])
					if os.Getenv("VERIF_RECONWS_DEBUG") != "" && time.Since(ts) > 1500*time.Millisecond {
						fmt.Fprintf(os.Stderr, "slow %v: %s -> %s\n", time.Since(ts), strings.Join(lines[i], " "), res[i])
					}
				}(i)
			}
			wg.Wait()
			runtime.GC()
		}
	}
	// slow scenarios (hang tokens, the public wrapper's 1 s waits) go together at the front
	var slow, fast []int
	for _, i := range todo {
		if scs[i].hasHangToken || scs[i].loop == "client" || scs[i].window() > 1200*time.Millisecond {
			slow = append(slow, i)
		} else {
			fast = append(fast, i)
		}
	}
	t0 := time.Now()
	wave(slow, 64)
	t1 := time.Now()
	wave(fast, par)
	if os.Getenv("VERIF_RECONWS_DEBUG") != "" {
		fmt.Fprintf(os.Stderr, "slow wave %d scenarios %v, fast waves %d scenarios %v\n", len(slow), t1.Sub(t0), len(fast), time.Since(t1))
	}
	for attempt := 0; attempt < 2; attempt++ {
		var again []int
		for _, i := range todo {
			if strings.Contains(res[i], "w!") || (res[i] == "stuck" && attempt == 0) || strings.Contains(res[i], "harness-error") {
				again = append(again, i)
			}
		}
		if len(again) == 0 {
			break
		}
		if os.Getenv("VERIF_RECONWS_DEBUG") != "" {
			for _, i := range again {
				fmt.Fprintf(os.Stderr, "retry %d: %s -> %s\n", attempt, strings.Join(lines[i], " "), res[i])
			}
		}
		wave(again, 4)
	}
	out := bufio.NewWriter(os.Stdout)
	for _, r := range res {
		out.WriteString(r)
		out.WriteByte('\n')
	}
	out.Flush()
}
