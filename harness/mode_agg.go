//go:build verif

package main

import (
	"fmt"
	"os"
	"runtime"
	"sort"
	"strings"
	"time"
	"unicode/utf8"

	"github.com/practable/relay/internal/agg"
	"github.com/practable/relay/internal/hub"
)

// mode agg: the real agg.Hub (agg.New + Run in a goroutine, which starts the inner hub.Hub.Run)
// with in-process subscribers (hub.Client with a large buffered Send channel).
//
//	reg <name> <topic>        h.Register   <- client(name,topic)   (one *hub.Client per (name,topic), reused)
//	unreg <name> <topic>      h.Unregister <- client(name,topic)
//	add <stream> <feed>...    h.Add        <- agg.Rule{stream, feeds}
//	del <stream>              h.Delete     <- stream               ("deleteAll" is the reserved id)
//	bc <topic> <sender>       h.Broadcast  <- message tagged (topic, seq) from a sender called <sender>
//	stall <name> <topic> <k>  client(name,topic) stops draining its Send channel with <k> (one or two decimal digits) free buffer slots left:
//	                          the harness fills the buffer with aggBuf-k filler messages. A forwarder that then executes
//	                          `c.Send <- msg` blocks (goroutine state "chan send"); the inner hub's own non-blocking send drops.
//	                          No-op on a client that is already stalled.
//	unstall <name> <topic>    the client drains again: fillers are thrown away, the real messages that were buffered or held by
//	                          blocked forwarders are reported like deliveries. No-op on a client that is not stalled.
//	st                        dump of the hub's tables at quiescence (exported fields, read only):
//	                          rules=<stream>=<feed>+<feed>,.. regs=<name>@<topic>,.. subs=<name>@<topic>:<#sub-subscriptions>,..
//	                          inner=<topic>:<#clients registered at the inner hub>,..
//
// After the hub loop has taken the op from its unbuffered channel the harness waits for QUIESCENCE:
// a stop-the-world goroutine dump (runtime.Stack) in which the agg loop, the inner hub loop and every
// forwarder goroutine (agg.(*SubClient).RelayTo) is parked in its `select` — or, while some client is
// stalled, parked in `chan send` (blocked on the full Send channel of a stalled client; a send to a
// draining client never parks, its buffer is emptied after every op). That is a state, not a
// delay: once it holds nothing is in flight and every forwarder not blocked on a stalled client is ready
// to take the next message, so the inner hub's non-blocking send cannot drop for "forwarder busy"
// reasons (drops under load are outside the model). Then the channel of every draining subscriber is
// emptied; the output line is
//
//	ok [<name>@<topic>:<tag>*<count>,...]      (sorted; tag = <hexfeed>#<seq>)
//	panic <kind>                               the hub goroutine panicked (recover wrapper; arg "die": no wrapper)
//	                                           (arg "stats": agg.RunWithStats, i.e. the inner hub's RunWithStats loop, as vw runs it)
//	dead                                       an op after the hub goroutine is gone
//	stuck                                      the hub hangs (see quiesce); every later op of the case answers stuck too
type aggCase struct {
	h       *agg.Hub
	closed  chan struct{}
	dead    chan string   // panic kind of the hub goroutine
	done    chan struct{} // hub goroutine returned
	isDead  bool
	isStuck bool // the hub hangs: its goroutines cannot be cleaned up, the process ends at the next reset
	clients map[string]*hub.Client
	keys    []string
	seq     int
	stalled map[string]bool           // client key -> not draining (buffer filled up by the harness)
	carry   map[string]map[string]int // client key -> tag -> count, taken out by unstall, reported by the next drain
}

const aggBuf = 4096

func aggUnhex(s string) (string, bool) {
	if s == "-" {
		return "", true
	}
	if len(s)%2 != 0 {
		return "", false
	}
	for _, c := range s {
		if !((c >= '0' && c <= '9') || (c >= 'a' && c <= 'f')) {
			return "", false
		}
	}
	v, ok := unhex(s)
	if !ok || !utf8.ValidString(v) {
		return "", false
	}
	return v, true
}

type aggGInfo struct {
	state string
	kind  string // "agg", "inner", "fwd", ""
}

// goroutines of interest with their scheduler state, from one consistent (stop-the-world) snapshot
func aggGoroutines() []aggGInfo {
	buf := make([]byte, 1<<16)
	for {
		n := runtime.Stack(buf, true)
		if n < len(buf) {
			buf = buf[:n]
			break
		}
		buf = make([]byte, 2*len(buf))
	}
	var res []aggGInfo
	for _, blk := range strings.Split(string(buf), "\n\n") {
		lines := strings.Split(blk, "\n")
		if len(lines) == 0 || !strings.HasPrefix(lines[0], "goroutine ") {
			continue
		}
		hd := lines[0]
		i, j := strings.Index(hd, "["), strings.LastIndex(hd, "]")
		if i < 0 || j < i {
			continue
		}
		st := strings.TrimSpace(strings.Split(hd[i+1:j], ",")[0])
		kind := ""
		for _, l := range lines[1:] {
			if strings.HasPrefix(l, "\t") || strings.HasPrefix(l, "created by") {
				continue
			}
			switch {
			case strings.Contains(l, "internal/agg.(*SubClient).RelayTo"):
				kind = "fwd"
			case strings.Contains(l, "internal/agg.(*Hub).RunOptionalStats"):
				kind = "agg"
			case strings.Contains(l, "internal/hub.(*Hub).Run"):
				kind = "inner"
			}
			if kind != "" {
				break
			}
		}
		if kind != "" {
			res = append(res, aggGInfo{st, kind})
		}
	}
	return res
}

// states in which a goroutine cannot continue unless another goroutine acts
var aggBlocked = map[string]bool{"select": true, "chan send": true, "chan receive": true, "select (no cases)": true,
	"chan send (nil chan)": true, "chan receive (nil chan)": true, "semacquire": true, "sync.Mutex.Lock": true,
	"sync.RWMutex.Lock": true, "sync.RWMutex.RLock": true, "sync.WaitGroup.Wait": true, "sync.Cond.Wait": true}

// quiesce waits until the hub loops are parked in select and every forwarder is parked in select or (only
// while a client is stalled) in chan send, or the hub died.
// A hang is recognised by state as well: every goroutine of the hub is blocked, and that is not the
// quiescent state, in 5 consecutive snapshots 1 ms apart (nobody is left who could unblock them);
// 5 s of wall clock without quiescence is the fallback.
func (a *aggCase) quiesce() string {
	deadline := time.Now().Add(5 * time.Second)
	deadlocked := 0
	for spin := 0; ; spin++ {
		select {
		case p := <-a.dead:
			a.isDead = true
			return "panic " + p
		default:
		}
		gs := aggGoroutines()
		ok, allBlocked := true, true
		nAgg, nInner := 0, 0
		for _, g := range gs {
			if g.state != "select" && !(g.kind == "fwd" && g.state == "chan send" && len(a.stalled) > 0) {
				ok = false
			}
			if !aggBlocked[g.state] {
				allBlocked = false
			}
			if g.kind == "agg" {
				nAgg++
			}
			if g.kind == "inner" {
				nInner++
			}
		}
		if ok && nAgg == 1 && nInner == 1 {
			return ""
		}
		if allBlocked && !ok && nAgg == 1 {
			deadlocked++
			if deadlocked >= 5 {
				a.isStuck = true
				return "stuck"
			}
			time.Sleep(time.Millisecond)
			continue
		}
		deadlocked = 0
		if time.Now().After(deadline) {
			a.isStuck = true
			return "stuck"
		}
		if spin < 20 {
			runtime.Gosched()
		} else {
			time.Sleep(50 * time.Microsecond)
		}
	}
}

func newAggCase(wrap, stats bool) *aggCase {
	a := &aggCase{h: agg.New(), closed: make(chan struct{}), dead: make(chan string, 1), done: make(chan struct{}),
		clients: map[string]*hub.Client{}, stalled: map[string]bool{}, carry: map[string]map[string]int{}}
	go func() {
		defer close(a.done)
		if wrap {
			defer func() {
				if r := recover(); r != nil {
					a.dead <- canonPanic(r)
				}
			}()
		}
		if stats {
			a.h.RunWithStats(a.closed) // what vw starts in production: inner hub.RunWithStats
		} else {
			a.h.Run(a.closed)
		}
	}()
	a.quiesce()
	return a
}

// teardown ends the case's goroutines so that the next case starts from an empty process:
// the loops end on `closed`; forwarders still alive are all registered at the inner hub, and end when
// their (private, unbuffered) Send channel is closed. Forwarders blocked on a stalled client are
// released first (every client drains again).
func (a *aggCase) teardown() {
	a.stalled = map[string]bool{}
	a.drain()
	close(a.closed)
	select {
	case <-a.done:
	case <-time.After(5 * time.Second):
	}
	deadline := time.Now().Add(5 * time.Second)
	closedSend := false
	for time.Now().Before(deadline) {
		gs := aggGoroutines()
		loops, fwd := 0, 0
		for _, g := range gs {
			if g.kind == "fwd" {
				fwd++
			} else {
				loops++
			}
		}
		if loops == 0 && !closedSend {
			closedSend = true
			mine := map[*hub.Client]bool{}
			for _, c := range a.clients {
				mine[c] = true
			}
			for _, m := range a.h.Hub.Clients {
				for c := range m {
					if !mine[c] {
						func() {
							defer func() { _ = recover() }()
							close(c.Send)
						}()
					}
				}
			}
			continue
		}
		if loops == 0 && fwd == 0 {
			return
		}
		a.drain()
		time.Sleep(50 * time.Microsecond)
	}
}

func (a *aggCase) client(name, topic string) *hub.Client {
	k := name + "\x00" + topic
	c, ok := a.clients[k]
	if !ok {
		c = &hub.Client{Hub: a.h.Hub, Name: name, Topic: topic, Send: make(chan hub.Message, aggBuf), Stats: hub.NewClientStats()}
		a.clients[k] = c
		a.keys = append(a.keys, k)
	}
	return c
}

// take empties the Send channel of one client (non-blocking receives until it is empty: a receive from a
// full channel with parked senders moves the first parked sender's message into the buffer and makes that
// sender runnable, atomically, so the loop also collects what blocked forwarders were holding).
// Filler messages (no data) are thrown away.
func aggTake(c *hub.Client, cnt map[string]int) {
	for {
		select {
		case m := <-c.Send:
			if len(m.Data) > 0 {
				cnt[string(m.Data)]++
			}
			continue
		default:
		}
		return
	}
}

// drain collects what every draining subscriber got since the last drain
func (a *aggCase) drain() string {
	var ents []string
	for _, k := range a.keys {
		if a.stalled[k] {
			continue
		}
		c := a.clients[k]
		cnt := a.carry[k]
		delete(a.carry, k)
		if cnt == nil {
			cnt = map[string]int{}
		}
		aggTake(c, cnt)
		for tag, n := range cnt {
			ents = append(ents, fmt.Sprintf("%s@%s:%s*%d", enhex(c.Name), enhex(c.Topic), tag, n))
		}
	}
	sort.Strings(ents)
	if len(ents) == 0 {
		return "ok"
	}
	return "ok " + strings.Join(ents, ",")
}

// stall: the client stops reading with k free slots left in its buffer (which is empty now: it was
// drained after the previous op and nothing is in flight at quiescence)
func (a *aggCase) stall(name, topic string, k int) string {
	if a.isDead {
		return "dead"
	}
	if a.isStuck {
		return "stuck"
	}
	c := a.client(name, topic)
	key := name + "\x00" + topic
	if a.stalled[key] {
		return "ok"
	}
	for i := 0; i < aggBuf-k; i++ {
		select {
		case c.Send <- hub.Message{}:
		default:
			return "harness-error buffer-not-empty"
		}
	}
	a.stalled[key] = true
	return "ok"
}

// unstall: the client reads again; blocked forwarders are released, then the usual quiescence + drain
func (a *aggCase) unstall(name, topic string) string {
	if a.isDead {
		return "dead"
	}
	if a.isStuck {
		return "stuck"
	}
	c := a.client(name, topic)
	key := name + "\x00" + topic
	if a.stalled[key] {
		delete(a.stalled, key)
		cnt := map[string]int{}
		aggTake(c, cnt)
		a.carry[key] = cnt
	}
	if r := a.quiesce(); r != "" {
		return r
	}
	return a.drain()
}

func (a *aggCase) do(send func(abort <-chan time.Time) bool) string {
	if a.isDead {
		return "dead"
	}
	if a.isStuck {
		return "stuck"
	}
	t := time.NewTimer(5 * time.Second)
	defer t.Stop()
	if !send(t.C) {
		select {
		case p := <-a.dead:
			a.isDead = true
			return "panic " + p
		default:
		}
		a.isStuck = true
		return "stuck"
	}
	if r := a.quiesce(); r != "" {
		return r
	}
	return a.drain()
}

// dump renders Rules / Streams / SubClients / inner registrations canonically. Only called at
// quiescence (both loops parked in select), so nothing writes the maps while they are read.
func (a *aggCase) dump() string {
	who := func(c *hub.Client) string { return enhex(c.Name) + "@" + enhex(c.Topic) }
	var rules, regs, subs, inner []string
	for st, feeds := range a.h.Rules {
		hf := make([]string, len(feeds))
		for i, f := range feeds {
			hf[i] = enhex(f)
		}
		rules = append(rules, enhex(st)+"="+strings.Join(hf, "+"))
	}
	for _, m := range a.h.Streams {
		for c := range m {
			regs = append(regs, who(c))
		}
	}
	for c, m := range a.h.SubClients {
		subs = append(subs, fmt.Sprintf("%s:%d", who(c), len(m)))
	}
	for tp, m := range a.h.Hub.Clients {
		if len(m) > 0 {
			inner = append(inner, fmt.Sprintf("%s:%d", enhex(tp), len(m)))
		}
	}
	for _, l := range [][]string{rules, regs, subs, inner} {
		sort.Strings(l)
	}
	return "rules=" + strings.Join(rules, ",") + " regs=" + strings.Join(regs, ",") + " subs=" + strings.Join(subs, ",") +
		" inner=" + strings.Join(inner, ",")
}

func (a *aggCase) step(fs []string) string {
	if len(fs) == 0 {
		return "bad-op"
	}
	if len(fs) == 1 && fs[0] == "st" {
		if a.isDead {
			return "dead"
		}
		if a.isStuck {
			return "stuck"
		}
		if r := a.quiesce(); r != "" {
			return r
		}
		return a.dump()
	}
	if len(fs) == 4 && fs[0] == "stall" {
		n, ok1 := aggUnhex(fs[1])
		t, ok2 := aggUnhex(fs[2])
		k, ok3 := 0, len(fs[3]) == 1 || len(fs[3]) == 2
		for _, ch := range fs[3] {
			if ch < '0' || ch > '9' {
				ok3 = false
			}
			k = k*10 + int(ch-'0')
		}
		if !ok1 || !ok2 || !ok3 {
			return "bad-op"
		}
		return a.stall(n, t, k)
	}
	args := make([]string, 0, len(fs))
	for _, f := range fs[1:] {
		v, ok := aggUnhex(f)
		if !ok {
			return "bad-op"
		}
		args = append(args, v)
	}
	switch {
	case fs[0] == "reg" && len(args) == 2:
		c := a.client(args[0], args[1])
		return a.do(func(ab <-chan time.Time) bool {
			select {
			case a.h.Register <- c:
				return true
			case <-a.done:
			case <-ab:
			}
			return false
		})
	case fs[0] == "unreg" && len(args) == 2:
		c := a.client(args[0], args[1])
		return a.do(func(ab <-chan time.Time) bool {
			select {
			case a.h.Unregister <- c:
				return true
			case <-a.done:
			case <-ab:
			}
			return false
		})
	case fs[0] == "add" && len(args) >= 1:
		feeds := append([]string{}, args[1:]...)
		r := agg.Rule{Stream: args[0], Feeds: feeds}
		return a.do(func(ab <-chan time.Time) bool {
			select {
			case a.h.Add <- r:
				return true
			case <-a.done:
			case <-ab:
			}
			return false
		})
	case fs[0] == "del" && len(args) == 1:
		return a.do(func(ab <-chan time.Time) bool {
			select {
			case a.h.Delete <- args[0]:
				return true
			case <-a.done:
			case <-ab:
			}
			return false
		})
	case fs[0] == "unstall" && len(args) == 2:
		return a.unstall(args[0], args[1])
	case fs[0] == "bc" && len(args) == 2:
		if a.isDead {
			return "dead"
		}
		tag := fmt.Sprintf("%s#%d", enhex(args[0]), a.seq)
		a.seq++
		m := hub.Message{Data: []byte(tag), Sender: hub.Client{Name: args[1], Topic: args[0]}, Sent: time.Now(), Type: 1}
		return a.do(func(ab <-chan time.Time) bool {
			select {
			case a.h.Broadcast <- m:
				return true
			case <-a.done:
			case <-ab:
			}
			return false
		})
	}
	return "bad-op"
}

func init() {
	register("agg", func(args []string) {
		wrap, stats := true, false
		for _, x := range args {
			if x == "die" {
				wrap = false
			}
			if x == "stats" {
				stats = true
			}
		}
		var cur *aggCase
		runLines(func() func(fs []string) string {
			if cur != nil {
				if cur.isStuck {
					os.Exit(3) // blocked hub goroutines would disturb every later case: fresh process (output is flushed per line)
				}
				cur.teardown()
			}
			cur = newAggCase(wrap, stats)
			a := cur
			return a.step
		})
	})
}
