//go:build verif

package main

import (
	"context"
	"fmt"
	"reflect"
	"regexp"
	"strconv"
	"strings"
	"time"

	"github.com/practable/relay/internal/file"
)

// mode playfile (C20): the real file.ParseLine / file.Check / file.Filter / file.FilterLines,
// plus time.ParseDuration, strconv.Atoi and the regexp verdicts (Compile, MatchString) that
// the Lean model takes as parameters.

// pfErrKind maps the text of a file.Error (its field is unexported; file.Check hands the
// text out) to the `return Error{…}` site in ParseLine that produced it.
func pfErrKind(text, line string) string {
	switch {
	case strings.HasPrefix(text, "unknown delay time format: "):
		return "delay-format"
	case strings.HasPrefix(text, "malformed delay command: "):
		return "delay-malformed"
	case strings.HasPrefix(text, "malformed condition command with only"):
		return "cond-few"
	case strings.HasPrefix(text, "malformed condition command: "):
		return "cond-args"
	case strings.HasPrefix(text, "malformed condition command ["):
		switch {
		case strings.HasSuffix(text, "Line was: "+line):
			return "cond-count"
		case strings.HasSuffix(text, "Line was was "+line):
			return "cond-timeout"
		case strings.HasSuffix(text, ". Line was "+line):
			return "cond-regexp"
		}
	case strings.HasPrefix(text, "malformed filter command; first argument not one of"):
		return "filter-verb"
	case strings.HasPrefix(text, "malformed filter command; last argument "):
		return "filter-regexp"
	case strings.HasPrefix(text, "malformed filter command: "):
		return "filter-malformed"
	}
	return "other"
}

func pfErrText(res interface{}) string {
	texts, _ := file.Check([]interface{}{res})
	if len(texts) != 1 {
		return ""
	}
	return texts[0]
}

// pfRender is the canonical one-line rendering of what ParseLine returned
func pfRender(res interface{}, line string) string {
	switch v := res.(type) {
	case file.Comment:
		e := 0
		if v.Echo {
			e = 1
		}
		return fmt.Sprintf("comment %d %s", e, enhex(v.Msg))
	case file.Wait:
		return fmt.Sprintf("wait %d", int64(v.Delay))
	case file.Send:
		if reflect.DeepEqual(v.Condition, file.Condition{}) {
			return fmt.Sprintf("send %s %d nocond", enhex(v.Msg), int64(v.Delay))
		}
		return fmt.Sprintf("send %s %d cond %s %d %d", enhex(v.Msg), int64(v.Delay),
			enhex(v.Condition.AcceptPattern.String()), v.Condition.Count, int64(v.Condition.Timeout))
	case file.FilterAction:
		p := "nil"
		if v.Pattern != nil {
			p = enhex(v.Pattern.String())
		}
		verb := "unknown"
		switch v.Verb {
		case file.Accept:
			verb = "accept"
		case file.Deny:
			verb = "deny"
		case file.Reset:
			verb = "reset"
		}
		return "filter " + verb + " " + p
	case file.Error:
		return "error " + pfErrKind(pfErrText(v), line)
	}
	return fmt.Sprintf("unknown-type %T", res)
}

var pfCancel context.CancelFunc

const pfPatience = 5 * time.Second

func init() {
	register("playfile", func(args []string) {
		runLines(func() func(fs []string) string {
			if pfCancel != nil {
				pfCancel()
			}
			ctx, cancel := context.WithCancel(context.Background())
			pfCancel = cancel
			// the real FilterLines goroutine, unbuffered channels: every hand-off is a barrier
			a := make(chan file.FilterAction)
			in := make(chan file.Line)
			w := make(chan file.Line)
			go file.FilterLines(ctx, a, in, w)
			// and a Filter used directly
			direct := file.NewFilter()

			act := func(fa file.FilterAction) string {
				// what FilterLines does with an action, on the direct filter
				switch fa.Verb {
				case file.Reset:
					direct.Reset()
				case file.Accept:
					direct.AddAcceptPattern(fa.Pattern)
				case file.Deny:
					direct.AddDenyPattern(fa.Pattern)
				}
				select {
				case a <- fa:
					return "ok"
				case <-time.After(pfPatience):
					return "stuck"
				}
			}

			return func(fs []string) string {
				if len(fs) == 0 {
					return "bad-op"
				}
				switch {
				case fs[0] == "parse" && len(fs) == 2:
					line, ok := unhex(fs[1])
					if !ok {
						return "bad-op"
					}
					return pfRender(file.ParseLine(line), line)

				case fs[0] == "byline" && len(fs) == 2:
					text, ok := unhex(fs[1])
					if !ok {
						return "bad-op"
					}
					out := make(chan interface{}, 8192)
					errc := make(chan error, 1)
					go func() { errc <- file.ParseByLine(strings.NewReader(text), out) }()
					got := []interface{}{}
					for v := range out {
						got = append(got, v)
					}
					perr := <-errc
					// the lines as a line reader defines them, computed independently
					lines := strings.Split(text, "\n")
					if len(lines) > 0 && lines[len(lines)-1] == "" {
						lines = lines[:len(lines)-1]
					}
					agree := len(lines) == len(got)
					for i := 0; agree && i < len(lines); i++ {
						l := strings.TrimSuffix(lines[i], "\r")
						if pfRender(got[i], l) != pfRender(file.ParseLine(l), l) {
							agree = false
						}
					}
					e := 0
					if perr != nil {
						e = 1
					}
					return fmt.Sprintf("byline n=%d agree=%s err=%d", len(got), map[bool]string{true: "t", false: "f"}[agree], e)

				case fs[0] == "check":
					var parsed []interface{}
					var lines []string
					for _, h := range fs[1:] {
						line, ok := unhex(h)
						if !ok {
							return "bad-op"
						}
						lines = append(lines, line)
						parsed = append(parsed, file.ParseLine(line))
					}
					texts, err := file.Check(parsed)
					// attribute every text to its line: the k-th text belongs to the k-th Error
					kinds := []string{}
					k := 0
					for i, p := range parsed {
						if _, isErr := p.(file.Error); isErr {
							if k < len(texts) {
								kinds = append(kinds, pfErrKind(texts[k], lines[i]))
							}
							k++
						}
					}
					e := 0
					if err != nil {
						e = 1
					}
					return fmt.Sprintf("check n=%d err=%d kinds=%s", len(texts), e, strings.Join(kinds, ","))

				case fs[0] == "dur" && len(fs) == 2:
					s, ok := unhex(fs[1])
					if !ok {
						return "bad-op"
					}
					d, err := time.ParseDuration(s)
					if err != nil {
						return "err"
					}
					return "ok " + strconv.FormatInt(int64(d), 10)

				case fs[0] == "atoi" && len(fs) == 2:
					s, ok := unhex(fs[1])
					if !ok {
						return "bad-op"
					}
					n, err := strconv.Atoi(s)
					if err != nil {
						return "err"
					}
					return "ok " + strconv.Itoa(n)

				case fs[0] == "compiles" && len(fs) == 2:
					p, ok := unhex(fs[1])
					if !ok {
						return "bad-op"
					}
					if _, err := regexp.Compile(p); err != nil {
						return "f"
					}
					return "t"

				case fs[0] == "matches" && len(fs) == 3:
					p, ok1 := unhex(fs[1])
					l, ok2 := unhex(fs[2])
					if !ok1 || !ok2 {
						return "bad-op"
					}
					re, err := regexp.Compile(p)
					if err != nil {
						return "badpat"
					}
					if re.MatchString(l) {
						return "1"
					}
					return "0"

				case fs[0] == "fcmd" && len(fs) == 2:
					line, ok := unhex(fs[1])
					if !ok {
						return "bad-op"
					}
					res := file.ParseLine(line)
					if fa, isFA := res.(file.FilterAction); isFA {
						// what Play does with a FilterAction: a <- line
						if r := act(fa); r != "ok" {
							return r
						}
					}
					return pfRender(res, line)

				case (fs[0] == "facc" || fs[0] == "fden") && len(fs) == 2:
					p, ok := unhex(fs[1])
					if !ok {
						return "bad-op"
					}
					re, err := regexp.Compile(p)
					if err != nil {
						return "badpat"
					}
					verb := file.Accept
					if fs[0] == "fden" {
						verb = file.Deny
					}
					return act(file.FilterAction{Verb: verb, Pattern: re})

				case fs[0] == "freset" && len(fs) == 1:
					return act(file.FilterAction{Verb: file.Reset})

				case fs[0] == "fnoop" && len(fs) == 1:
					return act(file.FilterAction{Verb: file.Unknown})

				case fs[0] == "recv" && len(fs) == 2:
					l, ok := unhex(fs[1])
					if !ok {
						return "bad-op"
					}
					d := direct.Pass(l)
					select {
					case in <- file.Line{Content: l}:
					case <-time.After(pfPatience):
						return "stuck"
					}
					// FilterLines now either blocks in `w <- line` (passed) or is back in its
					// select, where it will take a no-op action (dropped): no timing involved
					var viaLines bool
					select {
					case got := <-w:
						if got.Content != l {
							return "altered " + enhex(got.Content)
						}
						viaLines = true
					case a <- file.FilterAction{Verb: file.Unknown}:
						viaLines = false
					case <-time.After(pfPatience):
						return "stuck"
					}
					if d != viaLines {
						return fmt.Sprintf("split direct=%v lines=%v", d, viaLines)
					}
					if d {
						return "pass"
					}
					return "drop"

				case fs[0] == "fstate" && len(fs) == 1:
					acc := []string{}
					for k := range *direct.AcceptPatterns {
						acc = append(acc, k)
					}
					den := []string{}
					for k := range *direct.DenyPatterns {
						den = append(den, k)
					}
					return "accept=" + hexSet(acc) + " deny=" + hexSet(den)
				}
				return "bad-op"
			}
		})
	})
}
