//go:build verif

package main

import (
	"bytes"
	"encoding/binary"
	"encoding/hex"
	"encoding/json"
	"fmt"
	"io"
	"net"
	"net/http"
	"sort"
	"strconv"
	"strings"
	"sync"
	"sync/atomic"
	"time"

	"github.com/golang-jwt/jwt/v4"
	"github.com/gorilla/websocket"
	"github.com/practable/relay/internal/access"
	"github.com/practable/relay/internal/crossbar"
	"github.com/practable/relay/internal/deny"
	"github.com/practable/relay/internal/ttlcode"
	"github.com/practable/relay/internal/verifhook"
)

// mode relay: the real access API (go-openapi server) and the real crossbar (handleConnections,
// serveWs, pumps, hub) wired as relay.Relay wires them, on loopback, under a virtual clock
// (jwt.TimeFunc, ttlcode via verifhook.Now, deny.Store.SetNowFunc). One fresh instance per case.

type wsConn struct {
	c        *websocket.Conn
	mu       sync.Mutex
	frames   [][]byte // frames received since the last sync
	nrecv    uint64   // frames received in total
	nsent    uint64   // messages written by this client in total
	expect   int      // bytes this connection should have received in total (only used to bound waits)
	got      int      // bytes received in total
	closed   bool     // the server closed the connection (read error)
	name     string   // hub client name once joined
	paused   int32    // lag scenarios: the client has stopped reading (atomic)
	eof      bool     // the TCP connection was closed by the server (as opposed to a close frame only)
	lastRx   int64    // unix nanoseconds of the last frame received (atomic)
	floodSeq uint32   // next sequence number of this connection's flood records
}

type relayInst struct {
	floodAlternate bool // lag scenarios: alternate text and binary frames
	hung           int  // consecutive operations that timed out
	closed         chan struct{}
	hub            *crossbar.Hub
	cs             *ttlcode.CodeStore
	ds             *deny.Store
	denyCh         chan string
	accessPort     int
	wsPort         int // the wrapper port in front of http.DefaultServeMux
	wrap           *http.Server
	codes          []string
	conns          []*wsConn
	done           chan string // request paths whose serveWs handler returned
	now            *int64
	nowMu          *sync.Mutex
}

// relayRealClock: run the next instances on the real clock (mode expiry) instead of the virtual one
var relayRealClock = false

func newRelayInst(allowNoBid bool, buffer int64) *relayInst {
	r := &relayInst{closed: make(chan struct{}), denyCh: make(chan string, 64), done: make(chan string, 1024)}
	var now int64 = 1000000
	var mu sync.Mutex
	r.now, r.nowMu = &now, &mu
	clock := func() int64 { mu.Lock(); defer mu.Unlock(); return now }
	if relayRealClock {
		clock = func() int64 { return time.Now().Unix() }
		jwt.TimeFunc = time.Now
		verifhook.SetNow(nil)
	} else {
		jwt.TimeFunc = func() time.Time { return time.Unix(clock(), 0) }
		verifhook.SetNow(func() (int64, bool) { return clock(), true })
	}
	r.cs = ttlcode.NewDefaultCodeStore()
	r.ds = deny.New()
	r.ds.SetNowFunc(clock)
	r.hub = crossbar.New()
	http.DefaultServeMux = http.NewServeMux() // crossbar registers "/" on the default mux
	// three DISTINCT ports: the wrapper keeps its own listener open from the start; the two ports the relay
	// binds by number are picked while all three listeners are held, so they cannot coincide with each other
	wl, err := net.Listen("tcp", "127.0.0.1:0")
	if err != nil {
		panic(err)
	}
	l1, err1 := net.Listen("tcp", "127.0.0.1:0")
	l2, err2 := net.Listen("tcp", "127.0.0.1:0")
	if err1 != nil || err2 != nil {
		panic("no free port")
	}
	relayPort := l1.Addr().(*net.TCPAddr).Port
	r.accessPort = l2.Addr().(*net.TCPAddr).Port
	r.wsPort = wl.Addr().(*net.TCPAddr).Port
	l1.Close()
	l2.Close()
	var wg sync.WaitGroup
	wg.Add(2)
	go crossbar.Crossbar(crossbar.Config{Listen: relayPort, Audience: relayTarget, BufferSize: buffer, CodeStore: r.cs,
		DenyStore: r.ds, Hub: r.hub, StatsEvery: time.Hour}, r.closed, r.denyCh, &wg)
	go access.API(r.closed, &wg, access.Config{AllowNoBookingID: allowNoBid, CodeStore: r.cs, DenyStore: r.ds,
		DenyChannel: r.denyCh, Host: relayAudience, Hub: r.hub, Port: r.accessPort, Secret: relaySecret, Target: relayTarget})
	if !waitPort(relayPort) || !waitPort(r.accessPort) {
		panic("relay did not start")
	}
	mux := http.DefaultServeMux
	r.wrap = &http.Server{Addr: "127.0.0.1:" + strconv.Itoa(r.wsPort), Handler: http.HandlerFunc(func(w http.ResponseWriter, q *http.Request) {
		mux.ServeHTTP(w, q)
		select {
		case r.done <- q.URL.RequestURI():
		default:
		}
	})}
	go r.wrap.Serve(wl)
	// wait until the stats feeder has registered (first member)
	for i := 0; i < 400 && len(r.hub.VMembers()) == 0; i++ {
		time.Sleep(2 * time.Millisecond)
	}
	return r
}

func (r *relayInst) shutdown() {
	for _, c := range r.conns {
		c.c.Close()
	}
	close(r.closed)
	r.wrap.Close()
	go r.cs.Close() // in the background: a code store that dead-locked never lets go of its mutex
}

// ---- token construction from a spec: k=v;k=v with typed values
// a absent | i<int> JSON integer | f<dec> JSON number with fraction | s<hex> JSON string |
// l<hex>,<hex> JSON array of strings (l alone = empty array) | x ill-typed (JSON object)

func (r *relayInst) request(method, path, tok string) (int, []byte, string) {
	req, err := http.NewRequest(method, "http://127.0.0.1:"+strconv.Itoa(r.accessPort)+path, nil)
	if err != nil {
		return 0, nil, "badrequest"
	}
	if tok != "" {
		req.Header["Authorization"] = []string{tok}
	}
	cl := &http.Client{Timeout: 5 * time.Second}
	resp, err := cl.Do(req)
	if err != nil {
		return 0, nil, "transport-error"
	}
	defer resp.Body.Close()
	body, err := io.ReadAll(resp.Body)
	if err != nil {
		return resp.StatusCode, body, "body-error"
	}
	return resp.StatusCode, body, resp.Header.Get("Content-Type")
}

// well-formedness of a response: JSON (or the documented plain text) body
func bodyKind(body []byte, ct string) string {
	if len(body) == 0 {
		return "empty"
	}
	var v interface{}
	if json.Unmarshal(body, &v) == nil {
		return "json"
	}
	if strings.HasPrefix(ct, "text/plain") {
		return "text"
	}
	return "notjson"
}

func escPath(s string) string {
	// path segment as sent on the wire: percent-encode what net/http would refuse
	var b strings.Builder
	for i := 0; i < len(s); i++ {
		c := s[i]
		if (c >= 'a' && c <= 'z') || (c >= 'A' && c <= 'Z') || (c >= '0' && c <= '9') || strings.IndexByte("-_.~/%!$&'()*+,;=:@", c) >= 0 {
			b.WriteByte(c)
		} else {
			b.WriteString(fmt.Sprintf("%%%02X", c))
		}
	}
	return b.String()
}

func (r *relayInst) members() map[string]crossbar.VMember {
	out := map[string]crossbar.VMember{}
	for _, m := range r.hub.VMembers() {
		out[m.Name] = m
	}
	return out
}

func (r *relayInst) reader(w *wsConn) {
	for {
		for atomic.LoadInt32(&w.paused) == 1 {
			time.Sleep(time.Millisecond)
		}
		_, data, err := w.c.ReadMessage()
		atomic.StoreInt64(&w.lastRx, time.Now().UnixNano())
		w.mu.Lock()
		if err != nil {
			w.closed = true
			_, isClose := err.(*websocket.CloseError)
			w.mu.Unlock()
			if isClose {
				// a close frame: has the server also let go of the socket? (a mute client never answers the close frame)
				_ = w.c.UnderlyingConn().SetReadDeadline(time.Now().Add(3 * time.Second))
				buf := make([]byte, 1)
				_, rerr := w.c.UnderlyingConn().Read(buf)
				if ne, ok := rerr.(net.Error); !(ok && ne.Timeout()) {
					w.mu.Lock()
					w.eof = true
					w.mu.Unlock()
				}
			} else {
				w.mu.Lock()
				w.eof = true
				w.mu.Unlock()
			}
			return
		}
		w.frames = append(w.frames, data)
		w.nrecv++
		w.got += len(data)
		w.mu.Unlock()
	}
}

func init() {
	register("relay", func(args []string) {
		var cur *relayInst
		runLines(func() func(fs []string) string {
			if cur != nil {
				cur.shutdown()
				cur = nil
			}
			var r *relayInst
			return func(fs []string) string {
				if len(fs) == 0 {
					return "bad-op"
				}
				if fs[0] == "config" && len(fs) == 3 {
					buf, _ := strconv.Atoi(fs[2])
					r = newRelayInst(fs[1] == "1", int64(buf))
					cur = r
					return "ok"
				}
				if r == nil {
					r = newRelayInst(false, 8)
					cur = r
				}
				// an instance that has stopped answering is not asked again (each further request would cost a full time-out)
				if r.hung >= 3 {
					return "dead"
				}
				res := withTimeout(20*time.Second, func() string { return relayOp(r, fs) })
				if res == "stuck" || strings.Contains(res, "transport-error") || strings.HasPrefix(res, "0 ") {
					r.hung++
				} else {
					r.hung = 0
				}
				return res
			}
		})
		if cur != nil {
			cur.shutdown()
		}
	})
}

func relayOp(r *relayInst, fs []string) string {
	switch {
	case fs[0] == "now" && len(fs) == 2:
		t, ok := atoi64(fs[1])
		if !ok {
			return "bad-op"
		}
		r.nowMu.Lock()
		*r.now = t
		r.nowMu.Unlock()
		return "ok"
	case fs[0] == "session" && len(fs) == 3:
		id, ok := unhex(fs[2])
		if !ok {
			return "bad-op"
		}
		st, body, ct := r.request("POST", "/session/"+escPath(id), buildToken(fs[1]))
		res := strconv.Itoa(st) + " " + bodyKind(body, ct)
		var ok200 struct {
			URI string `json:"uri"`
		}
		if st == 200 && json.Unmarshal(body, &ok200) == nil {
			if i := strings.Index(ok200.URI, "?code="); i >= 0 {
				r.codes = append(r.codes, ok200.URI[i+6:])
				return res + " code=c" + strconv.Itoa(len(r.codes)-1) + " uri=" + enhex(ok200.URI[:i])
			}
			return res + " nocode"
		}
		if bytes.Contains(body, []byte("code=")) {
			return res + " leaked-code"
		}
		return res + " nocode"
	case (fs[0] == "deny" || fs[0] == "allow") && len(fs) == 4:
		q := []string{}
		if fs[2] != "a" {
			b, _ := unhex(fs[2][1:])
			q = append(q, "bid="+queryEsc(b))
		}
		if fs[3] != "a" {
			e, _ := unhex(fs[3][1:])
			q = append(q, "exp="+queryEsc(e))
		}
		st, body, ct := r.request("POST", "/bids/"+fs[0]+"?"+strings.Join(q, "&"), buildToken(fs[1]))
		// a deny is acknowledged once the crossbar has drained the notification queue (asynchronous hand-off)
		for i := 0; i < 1000 && len(r.denyCh) > 0; i++ {
			time.Sleep(time.Millisecond)
		}
		if st == 204 && fs[0] == "deny" && fs[2] != "a" {
			// ... and the crossbar has processed it (cancel channels of that booking are gone), and every
			// connection whose cancel channel was closed has been torn down
			b, _ := unhex(fs[2][1:])
			for i := 0; i < 3000; i++ {
				dcs := r.hub.VDcs()
				dcs.Lock()
				_, present := dcs.ChildrenByParent[b]
				dcs.Unlock()
				if !present {
					break
				}
				time.Sleep(time.Millisecond)
			}
			for i := 0; i < 5000; i++ {
				pending := false
				for _, m := range r.hub.VMembers() {
					select {
					case <-m.C.VDenied():
						pending = true
					default:
					}
				}
				if !pending {
					break
				}
				time.Sleep(time.Millisecond)
			}
		}
		return strconv.Itoa(st) + " " + bodyKind(body, ct)
	case (fs[0] == "listdeny" || fs[0] == "listallow") && len(fs) == 2:
		st, body, ct := r.request("GET", "/bids/"+fs[0][4:], buildToken(fs[1]))
		res := strconv.Itoa(st) + " " + bodyKind(body, ct)
		var l struct {
			BookingIds []string `json:"booking_ids"`
		}
		if st == 200 && json.Unmarshal(body, &l) == nil {
			return res + " ids=" + hexSet(l.BookingIds)
		}
		return res
	case fs[0] == "status" && len(fs) == 2:
		st, body, ct := r.request("GET", "/status", buildToken(fs[1]))
		res := strconv.Itoa(st) + " " + bodyKind(body, ct)
		var reps []struct {
			Topic     string   `json:"topic"`
			CanRead   bool     `json:"can_read"`
			CanWrite  bool     `json:"can_write"`
			Scopes    []string `json:"scopes"`
			UserAgent string   `json:"user_agent"`
			ExpiresAt string   `json:"expires_at"`
			Remote    string   `json:"remote_addr"`
		}
		if st == 200 && json.Unmarshal(body, &reps) == nil {
			es := []string{}
			for _, e := range reps {
				exp := "-"
				if t, err := time.Parse(time.RFC3339, e.ExpiresAt); err == nil {
					exp = strconv.FormatInt(t.Unix(), 10)
				}
				es = append(es, enhex(e.Topic)+":"+strconv.FormatBool(e.CanRead)[:1]+strconv.FormatBool(e.CanWrite)[:1]+":"+hexSet(e.Scopes)+":"+enhex(e.UserAgent)+":"+enhex(e.Remote)+":"+exp)
			}
			sort.Strings(es)
			return res + " conns=" + strings.Join(es, "|")
		}
		return res
	case fs[0] == "pollstatus" && len(fs) == 4:
		// pollstatus n<k> <ms> <stats token>: connection k streams small frames back to back for <ms> while GET /status is polled as fast as
		// it answers; every answer must list every connection that is joined throughout (compared by user agent with the answer taken just
		// before the traffic starts). Answers: polls=<K> incomplete=<J> first=<what was missing>
		w := r.conn(fs[1])
		ms, err := strconv.Atoi(fs[2])
		if w == nil || err != nil || ms < 50 || ms > 10000 {
			return "bad-op"
		}
		tokStats := buildToken(fs[3])
		agents := func() (map[string]bool, bool) {
			st, body, _ := r.request("GET", "/status", tokStats)
			var reps []struct {
				UserAgent string `json:"user_agent"`
			}
			if st != 200 || json.Unmarshal(body, &reps) != nil {
				return nil, false
			}
			m := map[string]bool{}
			for _, e := range reps {
				m[e.UserAgent] = true
			}
			return m, true
		}
		base, ok := agents()
		if !ok {
			return "pollstatus unavailable"
		}
		stop := make(chan struct{})
		done := make(chan int)
		go func() {
			n := 0
			for {
				select {
				case <-stop:
					done <- n
					return
				default:
				}
				_ = w.c.SetWriteDeadline(time.Now().Add(2 * time.Second))
				if err := w.c.WriteMessage(websocket.BinaryMessage, []byte{0xAB, 0xCD}); err != nil {
					<-stop
					done <- n
					return
				}
				n++
			}
		}()
		polls, incomplete, noans, first := 0, 0, 0, "-"
		deadline := time.Now().Add(time.Duration(ms) * time.Millisecond)
		for time.Now().Before(deadline) {
			cur, ok := agents()
			polls++
			if !ok {
				noans++ // not an incomplete LISTING: counted apart (a machine under load may time a request out)
				continue
			}
			for ua := range base {
				if !cur[ua] {
					incomplete++
					if first == "-" {
						first = enhex(ua)
					}
					break
				}
			}
		}
		close(stop)
		sent := <-done
		_ = w.c.SetWriteDeadline(time.Time{})
		return fmt.Sprintf("polls=%d incomplete=%d first=%s sent=%d noanswer=%d", polls, incomplete, first, sent, noans)
	case fs[0] == "raw" && len(fs) == 4:
		p, ok := unhex(fs[2])
		if !ok {
			return "bad-op"
		}
		st, body, ct := r.request(fs[1], p, buildToken(fs[3]))
		if st == 0 {
			return "0 " + ct
		}
		granted := "nogrant"
		if st >= 200 && st < 300 {
			granted = "granted"
		}
		return strconv.Itoa(st) + " " + bodyKind(body, ct) + " " + granted
	case fs[0] == "ws" && (len(fs) == 3 || len(fs) == 4 || len(fs) == 5):
		path, ok := unhex(fs[1])
		if !ok {
			return "bad-op"
		}
		code := ""
		switch {
		case fs[2] == "-":
		case fs[2] == "x":
			code = "00000000-0000-4000-8000-000000000000"
		case fs[2][0] == 'c':
			k, err := strconv.Atoi(fs[2][1:])
			if err != nil || k < 0 || k >= len(r.codes) {
				code = "11111111-1111-4111-8111-" + fmt.Sprintf("%012d", k)
			} else {
				code = r.codes[k]
			}
		}
		ua := "ua" + strconv.Itoa(len(r.conns))
		xff := "10.9.8." + strconv.Itoa(len(r.conns)%250)
		if len(fs) >= 4 {
			ua, _ = unhex(fs[3])
		}
		if len(fs) == 5 {
			xff, _ = unhex(fs[4])
		}
		url := "ws://127.0.0.1:" + strconv.Itoa(r.wsPort) + escPath(path)
		if fs[2] != "-" {
			url += "?code=" + code
		} else if fs[2] == "-" && strings.HasSuffix(path, "?") {
			url += "code="
		}
		for len(r.done) > 0 {
			<-r.done
		}
		before := r.members()
		hdr := http.Header{"User-Agent": []string{ua}, "X-Forwarded-For": []string{xff}}
		d := websocket.Dialer{HandshakeTimeout: 5 * time.Second}
		c, resp, err := d.Dial(url, hdr)
		if err != nil {
			st := 0
			if resp != nil {
				st = resp.StatusCode
			}
			return "httperr " + strconv.Itoa(st)
		}
		// the handler (serveWs) has returned when the wrapper says so: admission is decided by then
		select {
		case <-r.done:
		case <-time.After(10 * time.Second):
			return "stuck"
		}
		w := &wsConn{c: c}
		r.hub.VBarrier() // the hub has finished processing the registration, if there was one
		after := r.members()
		for n := range after {
			if _, was := before[n]; !was {
				w.name = n
			}
		}
		if w.name == "" {
			c.Close() // refused: the server leaves the socket open (known finding K6); drop it here
			return "refused"
		}
		r.conns = append(r.conns, w)
		go r.reader(w)
		m := after[w.name]
		return "joined n" + strconv.Itoa(len(r.conns)-1) + " topic=" + enhex(m.Topic) + " r=" + strconv.FormatBool(m.C.VCanRead())[:1] + " w=" + strconv.FormatBool(m.C.VCanWrite())[:1]
	case fs[0] == "send" && len(fs) == 4:
		w := r.conn(fs[1])
		d, ok := unhex(fs[2])
		mt, err := strconv.Atoi(fs[3])
		if w == nil || !ok || err != nil {
			return "bad-op"
		}
		if err := w.c.WriteMessage(mt, []byte(d)); err != nil {
			return "ok" // writing to a connection the relay has already closed: nothing to observe here
		}
		w.nsent++
		// bookkeeping used only to make the next sync wait long enough (never to judge the outcome)
		mem := r.members()
		if me, in := mem[w.name]; in && me.C.VCanWrite() {
			for _, o := range r.conns {
				if m, in2 := mem[o.name]; in2 && o != w && m.Topic == me.Topic && m.C.VCanRead() {
					o.mu.Lock()
					o.expect += len(d)
					o.mu.Unlock()
				}
			}
		}
		return "ok"
	case fs[0] == "stall" && len(fs) == 2, fs[0] == "unstall" && len(fs) == 2:
		w := r.conn(fs[1])
		if w == nil {
			return "bad-op"
		}
		if fs[0] == "stall" {
			atomic.StoreInt32(&w.paused, 1)
		} else {
			atomic.StoreInt32(&w.paused, 0)
		}
		return "ok"
	case fs[0] == "muteclose" && len(fs) == 2:
		w := r.conn(fs[1])
		if w == nil {
			return "bad-op"
		}
		w.c.SetCloseHandler(func(code int, text string) error { return nil }) // never answers a close frame
		return "ok"
	case fs[0] == "prune" && len(fs) == 1:
		r.ds.Prune() // what relay.go's pruning goroutine does every PruneEvery
		return "ok"
	case fs[0] == "settle" && len(fs) == 2:
		// let the relay's own slow consumers (the stats reporter reads its queue once a second) catch up
		ms, err := strconv.Atoi(fs[1])
		if err != nil || ms < 0 || ms > 5000 {
			return "bad-op"
		}
		time.Sleep(time.Duration(ms) * time.Millisecond)
		return "ok"
	case fs[0] == "floodtypes" && len(fs) == 2:
		r.floodAlternate = fs[1] == "alternate"
		return "ok"
	case fs[0] == "flood" && len(fs) == 5:
		// flood n<k> <count> <size> <tag>: <count> self-describing records (one per frame) of <size> body bytes
		w := r.conn(fs[1])
		count, e1 := strconv.Atoi(fs[2])
		size, e2 := strconv.Atoi(fs[3])
		tag, e3 := strconv.Atoi(fs[4])
		if w == nil || e1 != nil || e2 != nil || e3 != nil || count < 0 || size < 0 || tag < 0 || tag > 255 || count > 100000 || size > 1<<20 {
			return "bad-op"
		}
		sent := 0
		for q := 0; q < count; q++ {
			_ = w.c.SetWriteDeadline(time.Now().Add(5 * time.Second))
			mt := websocket.BinaryMessage
			if r.floodAlternate && w.floodSeq%2 == 1 {
				mt = websocket.TextMessage
			}
			if err := w.c.WriteMessage(mt, lagRecord(byte(tag), w.floodSeq, size)); err != nil {
				break
			}
			w.floodSeq++
			sent++
		}
		_ = w.c.SetWriteDeadline(time.Time{})
		w.nsent += uint64(sent)
		return "sent " + strconv.Itoa(sent)
	case fs[0] == "drain" && len(fs) == 2:
		quiet, err := strconv.Atoi(fs[1])
		if err != nil || quiet < 1 || quiet > 5000 {
			return "bad-op"
		}
		return r.drain(time.Duration(quiet) * time.Millisecond)
	case fs[0] == "sync" && len(fs) >= 1:
		return r.sync(fs[1:])
	case fs[0] == "close" && len(fs) == 2:
		w := r.conn(fs[1])
		if w == nil {
			return "bad-op"
		}
		_ = w.c.WriteMessage(websocket.CloseMessage, websocket.FormatCloseMessage(websocket.CloseNormalClosure, ""))
		w.c.Close()
		for i := 0; i < 3000; i++ {
			if _, in := r.members()[w.name]; !in {
				return "ok"
			}
			time.Sleep(time.Millisecond)
		}
		return "still-member"
	case fs[0] == "members" && len(fs) == 1:
		es := []string{}
		idx := map[string]int{}
		for i, w := range r.conns {
			idx[w.name] = i
		}
		for n, m := range r.members() {
			if i, ok := idx[n]; ok {
				es = append(es, "n"+strconv.Itoa(i)+":"+enhex(m.Topic))
			} else if !strings.HasPrefix(n, "stats-generator-") {
				es = append(es, "unknown:"+enhex(m.Topic))
			}
		}
		sort.Strings(es)
		return "members=" + strings.Join(es, ",") + " codes=" + strconv.Itoa(r.cs.GetCodeCount())
	}
	return "bad-op"
}

// lagRecord: 0xAB tag seq(4) len(4) body, body[i] = byte(seq*31 + i*7 + tag): every byte is checkable by the receiver
func lagRecord(tag byte, seq uint32, size int) []byte {
	b := make([]byte, 10+size)
	b[0], b[1] = 0xAB, tag
	binary.BigEndian.PutUint32(b[2:], seq)
	binary.BigEndian.PutUint32(b[6:], uint32(size))
	for i := 0; i < size; i++ {
		b[10+i] = byte(int(seq)*31 + i*7 + int(tag))
	}
	return b
}

// drain: wait until no reading connection has received anything for `quiet` (bounded), then summarise what every
// connection received since the last drain: per connection the records in order of arrival, compressed to runs
// `<tag>:<first>-<last>`, and the number of bytes that are not part of an intact record.
func (r *relayInst) drain(quiet time.Duration) string {
	deadline := time.Now().Add(25 * time.Second)
	// phase 0: every frame written by a writer that is still joined has been taken by its server-side readPump and fanned out
	// (on a loaded machine nothing may have arrived yet: "nobody received anything lately" must not be mistaken for "done")
	for time.Now().Before(deadline) {
		mem := r.members()
		ok := true
		for _, w := range r.conns {
			if m, in := mem[w.name]; in && m.C.VCanWrite() && m.C.VTxCount() < w.nsent {
				ok = false
			}
		}
		if ok {
			break
		}
		time.Sleep(time.Millisecond)
	}
	r.hub.VBarrier()
	// phase 0b: the queues of the readers that ARE reading have been written out by their writePumps
	for time.Now().Before(deadline) {
		mem := r.members()
		ok := true
		for _, w := range r.conns {
			if m, in := mem[w.name]; in && atomic.LoadInt32(&w.paused) == 0 && m.QLen > 0 {
				ok = false
			}
		}
		if ok {
			break
		}
		time.Sleep(time.Millisecond)
	}
	for time.Now().Before(deadline) {
		last := int64(0)
		for _, w := range r.conns {
			if l := atomic.LoadInt64(&w.lastRx); l > last {
				last = l
			}
		}
		if time.Since(time.Unix(0, last)) > quiet {
			break
		}
		time.Sleep(2 * time.Millisecond)
	}
	// connections that got a close frame are probing the socket for up to 3 s: let them finish
	for time.Now().Before(deadline) {
		busy := false
		for _, w := range r.conns {
			w.mu.Lock()
			if w.closed && !w.eof && time.Since(time.Unix(0, atomic.LoadInt64(&w.lastRx))) < 3200*time.Millisecond {
				busy = true
			}
			w.mu.Unlock()
		}
		if !busy {
			break
		}
		time.Sleep(10 * time.Millisecond)
	}
	mem := r.members()
	out := []string{}
	for i, w := range r.conns {
		w.mu.Lock()
		var stream []byte
		for _, f := range w.frames {
			stream = append(stream, f...)
		}
		w.frames = nil
		st := "open"
		if w.closed {
			st = "closed"
			if w.eof {
				st = "eof"
			}
		}
		if _, in := mem[w.name]; !in {
			st += "/gone"
		}
		if atomic.LoadInt32(&w.paused) == 1 {
			st += "/stalled"
		}
		w.mu.Unlock()
		runs := []string{}
		bad := 0
		curTag, first, lastSeq := -1, uint32(0), uint32(0)
		flush := func() {
			if curTag >= 0 {
				runs = append(runs, fmt.Sprintf("%d:%d-%d", curTag, first, lastSeq))
			}
			curTag = -1
		}
		for p := 0; p < len(stream); {
			okRec := false
			if stream[p] == 0xAB && p+10 <= len(stream) {
				tag, seq, n := stream[p+1], binary.BigEndian.Uint32(stream[p+2:]), int(binary.BigEndian.Uint32(stream[p+6:]))
				if n <= 1<<20 && p+10+n <= len(stream) {
					okRec = true
					for q := 0; q < n; q++ {
						if stream[p+10+q] != byte(int(seq)*31+q*7+int(tag)) {
							okRec = false
							break
						}
					}
					if okRec {
						if curTag == int(tag) && seq == lastSeq+1 {
							lastSeq = seq
						} else {
							flush()
							curTag, first, lastSeq = int(tag), seq, seq
						}
						p += 10 + n
					}
				}
			}
			if !okRec {
				bad++
				p++
				if bad > 200000 {
					break
				}
			}
		}
		flush()
		out = append(out, "n"+strconv.Itoa(i)+"="+st+":"+strings.Join(runs, ",")+":bad"+strconv.Itoa(bad))
	}
	return "drain " + strings.Join(out, " ")
}

func queryEsc(s string) string {
	var b strings.Builder
	for i := 0; i < len(s); i++ {
		c := s[i]
		if (c >= 'a' && c <= 'z') || (c >= 'A' && c <= 'Z') || (c >= '0' && c <= '9') || c == '-' || c == '_' || c == '.' {
			b.WriteByte(c)
		} else {
			b.WriteString(fmt.Sprintf("%%%02X", c))
		}
	}
	return b.String()
}

func (r *relayInst) conn(f string) *wsConn {
	if len(f) < 2 || f[0] != 'n' {
		return nil
	}
	k, err := strconv.Atoi(f[1:])
	if err != nil || k < 0 || k >= len(r.conns) {
		return nil
	}
	return r.conns[k]
}

// sync: make everything sent so far observable, deterministically.
//  1. every message written by a client has been read by its server-side readPump once a marker written
//     after it on the same socket has been relayed (markers go to a private witness per writer) — instead
//     we use the hub itself: for each open connection send a ping-like marker on a dedicated topic?  Not
//     possible without an extra token, so: wait until all queues are empty and the byte counts stop changing
//     for `quiet` ms; `expect` (optional: n<k>=<bytes>) makes the wait end early and never too early.
func (r *relayInst) sync(expect []string) string {
	want := map[int]int{}
	for _, e := range expect {
		if i := strings.Index(e, "="); i > 1 {
			k, _ := strconv.Atoi(e[1:i])
			n, _ := strconv.Atoi(e[i+1:])
			want[k] = n
		}
	}
	total := func(w *wsConn) int {
		w.mu.Lock()
		defer w.mu.Unlock()
		n := 0
		for _, f := range w.frames {
			n += len(f)
		}
		return n
	}
	deadline := time.Now().Add(8 * time.Second)
	_ = want
	_ = total
	// phase 1: every message written by a writer that is still joined has been forwarded by its readPump
	for time.Now().Before(deadline) {
		mem := r.members()
		ok := true
		for _, w := range r.conns {
			if m, in := mem[w.name]; in && m.C.VCanWrite() && m.C.VTxCount() < w.nsent {
				ok = false
			}
		}
		if ok {
			break
		}
		time.Sleep(500 * time.Microsecond)
	}
	r.hub.VBarrier() // ... and the hub has fanned the last one out
	// phase 2: every queue has been drained by its writePump, and every frame written has been read here
	for time.Now().Before(deadline) {
		mem := r.members()
		ok := true
		for _, w := range r.conns {
			if m, in := mem[w.name]; in {
				w.mu.Lock()
				if m.QLen > 0 || (m.C.VCanRead() && m.C.VRxCount() != w.nrecv) {
					ok = false
				}
				w.mu.Unlock()
			}
		}
		if ok {
			break
		}
		time.Sleep(500 * time.Microsecond)
	}
	// phase 2b: everything that should arrive has arrived (bounded by the deadline if the relay loses data)
	for time.Now().Before(deadline) {
		mem := r.members()
		ok := true
		for _, w := range r.conns {
			w.mu.Lock()
			if _, in := mem[w.name]; in && w.got < w.expect {
				ok = false
			}
			w.mu.Unlock()
		}
		if ok {
			break
		}
		time.Sleep(500 * time.Microsecond)
	}
	// phase 3: short quiet period, only to catch deliveries that should NOT happen (detection power only)
	time.Sleep(15 * time.Millisecond)
	// a connection that left the hub is closed by the server: wait until the client has seen that
	for time.Now().Before(deadline) {
		mem := r.members()
		waiting := false
		for _, w := range r.conns {
			w.mu.Lock()
			if _, in := mem[w.name]; !in && !w.closed {
				waiting = true
			}
			w.mu.Unlock()
		}
		if !waiting {
			break
		}
		time.Sleep(time.Millisecond)
	}
	out := []string{}
	mem := r.members()
	for i, w := range r.conns {
		w.mu.Lock()
		fr := []string{}
		for _, f := range w.frames {
			fr = append(fr, hex.EncodeToString(f))
		}
		w.frames = nil
		_, in := mem[w.name]
		st := "open"
		if w.closed {
			st = "closed"
		}
		if !in {
			st += "/gone"
		}
		w.mu.Unlock()
		out = append(out, "n"+strconv.Itoa(i)+"="+st+":"+strings.Join(fr, "|"))
	}
	return "sync " + strings.Join(out, " ")
}
