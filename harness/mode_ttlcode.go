//go:build verif

package main

import (
	"regexp"
	"strconv"
	"strings"
	"sync"
	"time"

	"github.com/practable/relay/internal/permission"
	"github.com/practable/relay/internal/ttlcode"
	"github.com/practable/relay/internal/verifhook"
)

var uuidV4 = regexp.MustCompile(`^[0-9a-f]{8}-[0-9a-f]{4}-4[0-9a-f]{3}-[89ab][0-9a-f]{3}-[0-9a-f]{12}$`)

// mode ttlcode: the real ttlcode.CodeStore under the virtual clock (verifhook.Now)
func init() {
	register("ttlcode", func(args []string) {
		opTimeout = 5 * time.Second // store operations are instantaneous; one that does not return has dead-locked
		var cur *ttlcode.CodeStore
		runLines(func() func(fs []string) string {
			if cur != nil {
				go cur.Close() // stop the previous case's sweeper goroutine (in the background: a store that dead-locked never lets go of its mutex)
			}
			var mu sync.Mutex
			now := int64(0)
			verifhook.SetNow(func() (int64, bool) { mu.Lock(); defer mu.Unlock(); return now, true })
			s := ttlcode.NewDefaultCodeStore()
			cur = s
			codes := []string{}
			seen := map[string]bool{}
			lookup := func(f string) (string, bool) {
				if f == "x" {
					return "00000000-0000-4000-8000-000000000000", true
				}
				// other spellings of an issued uuid (C<k> upper case, u<k> urn:uuid: prefix, b<k> in braces, n<k> without dashes):
				// none of them is the code that was issued
				if len(f) >= 2 && strings.ContainsRune("Cubn", rune(f[0])) {
					k, err := strconv.Atoi(f[1:])
					if err != nil || k < 0 || k >= len(codes) {
						return "", false
					}
					switch f[0] {
					case 'C':
						return strings.ToUpper(codes[k]), true
					case 'u':
						return "urn:uuid:" + codes[k], true
					case 'b':
						return "{" + codes[k] + "}", true
					default:
						return strings.ReplaceAll(codes[k], "-", ""), true
					}
				}
				if len(f) < 2 || f[0] != 'c' {
					return "", false
				}
				k, err := strconv.Atoi(f[1:])
				if err != nil || k < 0 {
					return "", false
				}
				if k >= len(codes) {
					return "11111111-1111-4111-8111-" + strconv.Itoa(100000000000+k), true
				}
				return codes[k], true
			}
			return func(fs []string) string {
				if len(fs) == 0 {
					return "bad-op"
				}
				switch {
				case fs[0] == "ttl" && len(fs) == 2:
					n, ok := atoi64(fs[1])
					if !ok {
						return "bad-op"
					}
					s.WithTTL(n)
					return "ok"
				case fs[0] == "submit" && len(fs) == 3:
					b, ok := unhex(fs[1])
					if !ok {
						return "bad-op"
					}
					t := permission.Token{Topic: "t" + fs[2], BookingID: b}
					code := s.SubmitToken(t)
					if seen[code] || !uuidV4.MatchString(code) {
						return "issued-bad " + code
					}
					seen[code] = true
					codes = append(codes, code)
					return "issued c" + strconv.Itoa(len(codes)-1)
				case fs[0] == "exchange" && len(fs) == 2:
					code, ok := lookup(fs[1])
					if !ok {
						return "bad-op"
					}
					t, err := s.ExchangeCode(code)
					if err != nil {
						return "invalid"
					}
					if len(t.Topic) < 1 {
						return "token-bad"
					}
					return "token " + enhex(t.BookingID) + " " + t.Topic[1:]
				case fs[0] == "clean" && len(fs) == 1:
					s.CleanExpired()
					return "ok"
				case fs[0] == "delbid" && len(fs) == 2:
					b, ok := unhex(fs[1])
					if !ok {
						return "bad-op"
					}
					s.DeleteByBookingID(b)
					return "ok"
				case fs[0] == "now" && len(fs) == 2:
					t, ok := atoi64(fs[1])
					if !ok {
						return "bad-op"
					}
					mu.Lock()
					now = t
					mu.Unlock()
					return "ok"
				case fs[0] == "count" && len(fs) == 1:
					return strconv.Itoa(s.GetCodeCount())
				case fs[0] == "race" && len(fs) == 3:
					code, ok := lookup(fs[1])
					n, err := strconv.Atoi(fs[2])
					if !ok || err != nil || n < 0 || n > 64 {
						return "bad-op"
					}
					start := make(chan struct{})
					var wg sync.WaitGroup
					wins := make([]bool, n)
					for i := 0; i < n; i++ {
						wg.Add(1)
						go func(i int) {
							defer wg.Done()
							<-start
							_, err := s.ExchangeCode(code)
							wins[i] = err == nil
						}(i)
					}
					close(start)
					wg.Wait()
					w := 0
					for _, b := range wins {
						if b {
							w++
						}
					}
					return "wins " + strconv.Itoa(w)
				}
				return "bad-op"
			}
		})
	})
}
