//go:build verif

package access

// In-package wrapper for the C14 codec check: the real getStatusHandler (REST projection of
// Hub.GetStats) with a principal carrying the relay:stats scope, written through the real
// go-openapi JSON producer.

import (
	"fmt"
	"net/http/httptest"
	"time"

	"github.com/go-openapi/runtime"
	"github.com/golang-jwt/jwt/v4"
	"github.com/practable/relay/internal/access/restapi/operations"
	"github.com/practable/relay/internal/crossbar"
	"github.com/practable/relay/internal/permission"
)

// VerifStatusBody returns the HTTP status code and body of GET /status for the hub;
// panicked != "" when WriteResponse panicked (the JSON producer refused the payload)
func VerifStatusBody(h *crossbar.Hub) (code int, body []byte, panicked string) {
	claims := &permission.Token{Scopes: []string{"relay:stats"}}
	claims.Audience = jwt.ClaimStrings{"verif"}
	claims.ExpiresAt = jwt.NewNumericDate(time.Now().Add(time.Hour))
	tok := jwt.NewWithClaims(jwt.SigningMethodHS256, claims)
	handler := getStatusHandler(Config{Hub: h})
	rec := httptest.NewRecorder()
	func() {
		defer func() {
			if r := recover(); r != nil {
				panicked = fmt.Sprint(r)
			}
		}()
		resp := handler(operations.GetStatusParams{}, tok)
		resp.WriteResponse(rec, runtime.JSONProducer())
	}()
	return rec.Code, rec.Body.Bytes(), panicked
}
