//go:build verif

package crossbar

// Thin in-package wrappers for the C14 codec check (status reports).
// Self-contained: builds hub members with chosen metadata and traffic statistics, exactly as
// handleConnections / readPump / writePump fill them, and exposes the two report producers.

import (
	"encoding/json"
	"sync"
	"time"

	"github.com/eclesh/welford"
)

// VerifStatusSample is one message seen in a direction: dt = nanoseconds since the previous
// message (or since connectedAt for the first), size = its length
type VerifStatusSample struct {
	Dt   int64
	Size int
}

// VerifStatusSpec describes one member
type VerifStatusSpec struct {
	Topic        string
	CanRead      bool
	CanWrite     bool
	ConnectedAt  time.Time
	ExpUnix      int64 // token exp; handleConnections does time.Unix(exp, 0)
	RemoteAddr   string
	Scopes       []string
	UserAgent    string
	Tx, Rx       []VerifStatusSample
	TxAgo, RxAgo time.Duration // how long before "now" the last message was seen
}

// VerifStatusHub returns an empty hub (not running)
func VerifStatusHub() *Hub { return newHub() }

func verifStatusFrames(samples []VerifStatusSample, ago time.Duration) *Frames {
	f := &Frames{size: welford.New(), ns: welford.New(), mu: &sync.RWMutex{}}
	// the statements of readPump / writePump: ns.Add(t - last | t - connectedAt); last = t; size.Add(len)
	for _, s := range samples {
		f.ns.Add(float64(s.Dt))
		f.size.Add(float64(s.Size))
	}
	if len(samples) > 0 {
		f.last = time.Now().Add(-ago)
	}
	return f
}

// VerifStatusAdd inserts a member into the hub's client map under the hub mutex
// (what Hub.run does on register) and returns it
func VerifStatusAdd(h *Hub, s VerifStatusSpec) *Client {
	stats := &Stats{
		connectedAt: s.ConnectedAt,
		expiresAt:   time.Unix(s.ExpUnix, 0),
		tx:          verifStatusFrames(s.Tx, s.TxAgo),
		rx:          verifStatusFrames(s.Rx, s.RxAgo),
	}
	c := &Client{
		hub:        h,
		expiresAt:  s.ExpUnix,
		send:       make(chan message, 4),
		topic:      s.Topic,
		stats:      stats,
		name:       "verif",
		userAgent:  s.UserAgent,
		remoteAddr: s.RemoteAddr,
		canRead:    s.CanRead,
		canWrite:   s.CanWrite,
		scopes:     s.Scopes,
	}
	h.mu.Lock()
	if _, ok := h.clients[c.topic]; !ok {
		h.clients[c.topic] = make(map[*Client]bool)
	}
	h.clients[c.topic][c] = true
	h.mu.Unlock()
	return c
}

// VerifStatusMarshal is the stats-topic frame for the given reports: json.Marshal, as in statsReporter
func VerifStatusMarshal(reports []*ClientReport) ([]byte, error) { return json.Marshal(reports) }

// VerifStatusReporterFrame runs the real statsReporter goroutine against the hub until it
// broadcasts one frame (the hub is not running, so the frame is taken from hub.broadcast).
// ok=false: no frame within the timeout (json.Marshal failed and the reporter returned).
func VerifStatusReporterFrame(h *Hub, timeout time.Duration) (frame []byte, ok bool) {
	closed := make(chan struct{})
	var wg sync.WaitGroup
	wg.Add(1)
	c := &Client{hub: h, send: make(chan message, 4), topic: "stats", name: "verif-reporter"}
	go c.statsReporter(closed, &wg, time.Millisecond)
	defer close(closed)
	select {
	case m := <-h.broadcast:
		return m.data, true
	case <-time.After(timeout):
		return nil, false
	}
}

// VerifStatusLagFrames runs the real statsReporter and plays a stats listener that lags by one report:
// it takes the first broadcast frame WITHOUT copying it (as a queued message is held by reference),
// lets `between` change the membership, takes the second frame, and only then looks at the first again.
// It returns the first frame as it was at hand-off, as it is afterwards, and the second frame.
func VerifStatusLagFrames(h *Hub, between func(), timeout time.Duration) (atHandoff, afterwards, second []byte, ok bool) {
	closed := make(chan struct{})
	var wg sync.WaitGroup
	wg.Add(1)
	c := &Client{hub: h, send: make(chan message, 4), topic: "stats", name: "verif-reporter"}
	go c.statsReporter(closed, &wg, time.Millisecond)
	defer close(closed)
	var held []byte
	select {
	case m := <-h.broadcast:
		held = m.data
		atHandoff = append([]byte(nil), m.data...)
	case <-time.After(timeout):
		return nil, nil, nil, false
	}
	between()
	select {
	case m := <-h.broadcast:
		second = append([]byte(nil), m.data...)
	case <-time.After(timeout):
		return nil, nil, nil, false
	}
	afterwards = append([]byte(nil), held...)
	return atHandoff, afterwards, second, true
}

// VerifStatusRemoveTopic takes every client filed under topic out of the membership table
func VerifStatusRemoveTopic(h *Hub, topic string) {
	h.mu.Lock()
	delete(h.clients, topic)
	h.mu.Unlock()
}
