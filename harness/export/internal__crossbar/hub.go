//go:build verif

package crossbar

import (
	"sync"
	"time"

	"github.com/eclesh/welford"
	"github.com/practable/relay/internal/chanmap"
)

// Thin wrappers for the verification harness (overlay only; never part of the repository).

// VClient is the hub's client type
type VClient = Client

// VNewHub returns a running hub with its own deny channel store
func VNewHub() *Hub {
	h := newHub()
	h.SetDenyChannelStore(chanmap.New())
	go h.run()
	return h
}

// VNewClient builds a client as serveWs does, without a socket
func VNewClient(h *Hub, name, topic, bid string, r, w bool, capacity int) *Client {
	tx := &Frames{size: welford.New(), ns: welford.New(), mu: &sync.RWMutex{}}
	rx := &Frames{size: welford.New(), ns: welford.New(), mu: &sync.RWMutex{}}
	return &Client{hub: h, bookingID: bid, denied: make(chan struct{}), send: make(chan message, capacity),
		topic: topic, name: name, canRead: r, canWrite: w,
		stats: &Stats{connectedAt: time.Now(), tx: tx, rx: rx}}
}

// VRegister hands the client to the hub loop
func (h *Hub) VRegister(c *Client) { h.register <- c }

// VUnregister hands the client to the hub loop
func (h *Hub) VUnregister(c *Client) { h.unregister <- c }

// VBroadcastFrom hands a message from c to the hub loop
func (h *Hub) VBroadcastFrom(c *Client, data []byte, mt int) {
	h.broadcast <- message{sender: *c, data: data, mt: mt}
}

// VBarrier returns when every event handed to the hub loop before it has been fully processed
func (h *Hub) VBarrier() {
	dummy := &Client{topic: "\x00none", name: "\x00barrier"}
	h.unregister <- dummy
	h.unregister <- dummy
}

// VMember describes one registered client
type VMember struct {
	Name, Topic string
	QLen        int
	C           *Client
}

// VMembers lists the registered clients
func (h *Hub) VMembers() []VMember {
	h.mu.RLock()
	defer h.mu.RUnlock()
	out := []VMember{}
	for t, m := range h.clients {
		for c := range m {
			out = append(out, VMember{Name: c.name, Topic: t, QLen: len(c.send), C: c})
		}
	}
	return out
}

// VTopicKeys lists the topic keys present in the membership map (even with no clients)
func (h *Hub) VTopicKeys() []string {
	h.mu.RLock()
	defer h.mu.RUnlock()
	out := []string{}
	for t := range h.clients {
		out = append(out, t)
	}
	return out
}

// VDcs gives the deny channel store
func (h *Hub) VDcs() *chanmap.Store { return h.dcs }

// VCanRead / VCanWrite / VName / VDenied expose client fields
func (c *Client) VCanRead() bool         { return c.canRead }
func (c *Client) VCanWrite() bool        { return c.canWrite }
func (c *Client) VName() string          { return c.name }
func (c *Client) VDenied() chan struct{} { return c.denied }

// VRecv takes one queued message without blocking: data, sender name, got, closed
func (c *Client) VRecv() ([]byte, string, int, bool, bool) {
	select {
	case m, ok := <-c.send:
		if !ok {
			return nil, "", 0, false, true
		}
		return m.data, m.sender.name, m.mt, true, false
	default:
		return nil, "", 0, false, false
	}
}

// VQLen is the number of queued messages
func (c *Client) VQLen() int { return len(c.send) }

// VSlashify etc. expose the path functions
func VSlashify(p string) string { return slashify(p) }
func VConnType(p string) string { return getConnectionTypeFromPath(p) }
func VTopic(p string) string    { return getTopicFromPath(p) }

// VTxCount is the number of messages this client's readPump has forwarded to the hub
func (c *Client) VTxCount() uint64 {
	c.stats.tx.mu.RLock()
	defer c.stats.tx.mu.RUnlock()
	return c.stats.tx.size.Count()
}

// VRxCount is the number of websocket frames this client's writePump has written
func (c *Client) VRxCount() uint64 {
	c.stats.rx.mu.RLock()
	defer c.stats.rx.mu.RUnlock()
	return c.stats.rx.size.Count()
}

// VStall keeps the hub's membership lock for d (as a slow status walk or a busy moment would), so that
// events arriving meanwhile pile up; it returns once the lock is held.
func (h *Hub) VStall(d time.Duration) {
	held := make(chan struct{})
	go func() {
		h.mu.Lock()
		close(held)
		time.Sleep(d)
		h.mu.Unlock()
	}()
	<-held
}
