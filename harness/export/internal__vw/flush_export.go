//go:build verif

package vw

import "net/http"

// VerifFlushHandleTs exposes the unexported video ingest handler to the C17 harness.
func (app *App) VerifFlushHandleTs(w http.ResponseWriter, r *http.Request) { app.handleTs(w, r) }

// VerifFlushHandleWs exposes the unexported websocket feed handler to the C17 harness.
func (app *App) VerifFlushHandleWs(w http.ResponseWriter, r *http.Request) { app.handleWs(w, r) }
