//go:build verif

package vw

import "net/http"

// thin wrappers for the C18 harness (mode vwapi); nothing here changes behaviour

// HandleAdminMessageVerif is the real dispatcher of the websocket control topic
func (app *App) HandleAdminMessageVerif(msg []byte) ([]byte, error) {
	return app.handleAdminMessage(msg)
}

// InternalAPIVerif is the real API goroutine body (registers client "admin", replies by broadcast)
func (app *App) InternalAPIVerif(topic string) { app.internalAPI(topic) }

// RouterVerif returns the real route table built by startHTTPServer. The listener that function
// starts (on an ephemeral port) is closed at once: requests are served in-process through the handler.
func (app *App) RouterVerif() http.Handler {
	srv := app.startHTTPServer(0)
	_ = srv.Close()
	return srv.Handler
}

// RuleHandlersVerif exposes the ten HTTP rule handlers by name, so that the harness can also call
// them with path variables the router's pattern would never let through, and reach the two
// delete-all handlers (the route table registers `{id}` DELETE before `all` DELETE, which shadows them).
func (app *App) RuleHandlersVerif() map[string]http.HandlerFunc {
	return map[string]http.HandlerFunc{
		"handleDestinationShowAll":   app.handleDestinationShowAll,
		"handleDestinationShow":      app.handleDestinationShow,
		"handleDestinationAdd":       app.handleDestinationAdd,
		"handleDestinationDelete":    app.handleDestinationDelete,
		"handleDestinationDeleteAll": app.handleDestinationDeleteAll,
		"handleStreamShowAll":        app.handleStreamShowAll,
		"handleStreamShow":           app.handleStreamShow,
		"handleStreamAdd":            app.handleStreamAdd,
		"handleStreamDelete":         app.handleStreamDelete,
		"handleStreamDeleteAll":      app.handleStreamDeleteAll,
	}
}
