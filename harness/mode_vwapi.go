//go:build verif

package main

import (
	"bytes"
	"encoding/json"
	"fmt"
	"net/http"
	"net/http/httptest"
	"net/url"
	"os"
	"os/exec"
	"reflect"
	"runtime"
	"sort"
	"strconv"
	"strings"
	"sync"
	"sync/atomic"
	"time"

	"github.com/gorilla/mux"
	"github.com/gorilla/websocket"
	"github.com/practable/relay/internal/agg"
	"github.com/practable/relay/internal/hub"
	"github.com/practable/relay/internal/rwc"
	"github.com/practable/relay/internal/vw"
)

// mode vwapi (C18): the host's two control interfaces, driven sequentially.
//
//	start <api>            build a vw.App the way Stream() does (minus envconfig and the listener):
//	                       real agg hub (RunWithStats), real rwc hub, real internalAPI goroutine,
//	                       Opts.API = <api>, and the start-up `Add <- apiRule` if api != "".
//	ws <bytes>             the real handleAdminMessage, called directly under recover
//	wsl <bytes>            the same bytes through the real internalAPI goroutine (handed to its Send
//	                       channel, reply taken from a second client on topic "api"); no recover there,
//	                       exactly as in production
//	http <METHOD> <path> <body>   the real gorilla/mux route table from startHTTPServer, httptest recorder
//	hcall <handler> <var> <body>  one of the ten rule handlers called directly, path variable = <var> (any string)
//	stress <ms>            (thorough tier) child process: concurrent POST /api/streams + GET /api/streams/all
//
// Output: `<observation> | D=<destination rules> | S=<stream rules> ;; <what encoding/json and mux decoded>`.
// The part after `;;` is input for the Lean model (encoding/json and gorilla/mux are not modelled).
//
// K5 (rule maps read without a lock) must not disturb this sequential run: after every operation
// the harness sends each hub a follow-up message on its unbuffered Add channel with the reserved
// id "deleteAll" -- the hub can only receive it after it has finished the previous case body, and
// handling it touches no map (`break`). Only then are the rule maps read.

type vwapiCase struct {
	app    *vw.App
	router http.Handler
	admin  *hub.Client
	probe  *hub.Client
	dead   bool
}

var vwapiCur *vwapiCase

const vwapiWait = 30 * time.Second // generous: under a fully loaded machine a 10 s bound was once exceeded on the unchanged tree (a hang is for ever anyway)

func vwapiHexList(xs []string) string {
	if xs == nil {
		return "~"
	}
	if len(xs) == 0 {
		return "="
	}
	hs := make([]string, len(xs))
	for i, x := range xs {
		hs[i] = enhex(x)
	}
	return strings.Join(hs, ",")
}

func vwapiDestFields(r rwc.Rule) string {
	return strings.Join([]string{enhex(r.ID), enhex(r.Stream), enhex(r.Destination), enhex(r.Token), enhex(r.File)}, "/")
}

func (c *vwapiCase) barrier() bool {
	t := time.NewTimer(vwapiWait)
	defer t.Stop()
	select {
	case c.app.Websocket.Add <- rwc.Rule{ID: "deleteAll"}:
	case <-t.C:
		return false
	}
	select {
	case c.app.Hub.Add <- agg.Rule{Stream: "deleteAll"}:
	case <-t.C:
		return false
	}
	return true
}

func (c *vwapiCase) listing() string {
	ds := []string{}
	for k, r := range c.app.Websocket.Rules {
		ds = append(ds, enhex(k)+"/"+vwapiDestFields(r))
	}
	sort.Strings(ds)
	ss := []string{}
	for k, f := range c.app.Hub.Rules {
		ss = append(ss, enhex(k)+"/"+vwapiHexList(f))
	}
	sort.Strings(ss)
	return "D=" + strings.Join(ds, ";") + " | S=" + strings.Join(ss, ";")
}

func vwapiDecD(raw []byte) string {
	var r rwc.Rule
	if err := json.Unmarshal(raw, &r); err != nil {
		return "E " + enhex(err.Error())
	}
	return "V " + strings.ReplaceAll(vwapiDestFields(r), "/", " ")
}

func vwapiDecS(raw []byte) string {
	var r agg.Rule
	if err := json.Unmarshal(raw, &r); err != nil {
		return "E " + enhex(err.Error())
	}
	return "V " + enhex(r.Stream) + " " + vwapiHexList(r.Feeds)
}

// what json.Unmarshal makes of a command (the same call handleAdminMessage performs)
func vwapiDecCmd(msg []byte) string {
	var cmd vw.Command
	err := json.Unmarshal(msg, &cmd)
	if err != nil {
		return "1 - - - N"
	}
	s := "0 " + enhex(cmd.Verb) + " " + enhex(cmd.What) + " " + enhex(cmd.Which)
	if cmd.Rule == nil {
		return s + " N"
	}
	return s + " R " + vwapiDecD(*cmd.Rule) + " " + vwapiDecS(*cmd.Rule)
}

func vwapiValid(b []byte) string {
	if json.Valid(b) {
		return "1"
	}
	return "0"
}

// run f with a deadline; "" result means it did not return in time
func vwapiTimed(f func() string) string {
	done := make(chan string, 1)
	go func() { done <- safely(f) }()
	select {
	case s := <-done:
		return s
	case <-time.After(vwapiWait):
		select { // see withTimeout: a held-up process makes both ready at once
		case s := <-done:
			return s
		case <-time.After(5 * time.Second):
			return ""
		}
	}
}

func vwapiNew(api string) *vwapiCase {
	c := &vwapiCase{}
	a := &vw.App{Hub: agg.New(), Closed: make(chan struct{})}
	a.Websocket = rwc.New(a.Hub)
	a.Opts.API = api
	c.app = a
	// take the API goroutine's registration off the channel ourselves (as the package's own test does),
	// so that we know its client without reading hub internals; then pass it on to the running hub.
	go a.InternalAPIVerif("api")
	c.admin = <-a.Hub.Register
	go a.Hub.RunWithStats(a.Closed)
	go a.Websocket.Run(a.Closed)
	a.Hub.Register <- c.admin
	c.probe = &hub.Client{Hub: a.Hub.Hub, Name: "verif-probe", Topic: "api", Send: make(chan hub.Message, 64), Stats: hub.NewClientStats()}
	a.Hub.Register <- c.probe
	if api != "" { // Stream(): don't lock ourselves out
		a.Websocket.Add <- rwc.Rule{Stream: "api", Destination: api, ID: "apiRule"}
	}
	c.router = a.RouterVerif()
	return c
}

func (c *vwapiCase) close() {
	if c != nil && c.app != nil {
		close(c.app.Closed)
	}
}

func (c *vwapiCase) finish(obs string, dec string) string {
	if obs == "" {
		c.dead = true
		return "stuck ;; " + dec
	}
	if !c.barrier() {
		c.dead = true
		return obs + " | stuck-barrier ;; " + dec
	}
	return obs + " | " + c.listing() + " ;; " + dec
}

func (c *vwapiCase) opWs(msg []byte) string {
	obs := vwapiTimed(func() string {
		reply, err := c.app.HandleAdminMessageVerif(msg)
		if err != nil {
			return "err " + enhex(err.Error())
		}
		return "ok " + enhex(string(reply)) + " v=" + vwapiValid(reply)
	})
	return c.finish(obs, vwapiDecCmd(msg))
}

// vwapiWaitAPIParked: the API goroutine's Send channel is unbuffered and the hub's fan-out never waits, so a command that arrives
// before that goroutine is back at its receive (it has just handed its previous reply to the hub) is dropped without a reply. That
// is a matter of scheduling, not of the command (C18 quantifies over commands and sequences of them): the sequential harness waits
// until the goroutine is parked in its select before it sends the next command. (Seen once per few thousand commands on a loaded
// machine as `stuck-reply` on the unchanged tree.)
func vwapiWaitAPIParked() {
	buf := make([]byte, 1<<20)
	for i := 0; i < 4000; i++ {
		n := runtime.Stack(buf, true)
		for _, g := range strings.Split(string(buf[:n]), "\n\n") {
			if strings.Contains(g, "nternalAPI") {
				head := strings.SplitN(g, "\n", 2)[0]
				if strings.Contains(head, "[select") || strings.Contains(head, "[chan receive") {
					return
				}
			}
		}
		time.Sleep(500 * time.Microsecond)
	}
}

func (c *vwapiCase) opWsl(msg []byte) string {
	vwapiWaitAPIParked()
	// drain stale replies (there are none in a sequential run)
	for len(c.probe.Send) > 0 {
		<-c.probe.Send
	}
	obs := vwapiTimed(func() string {
		t := time.NewTimer(vwapiWait - time.Second)
		defer t.Stop()
		select {
		// through the hub's own fan-out on the control topic, as a control connection's frame travels in the host
		case c.app.Hub.Broadcast <- hub.Message{Sender: *c.probe, Data: msg, Type: websocket.TextMessage, Sent: time.Now()}:
		case <-t.C:
			return "stuck-send"
		}
		select {
		case m := <-c.probe.Send:
			return "reply " + enhex(string(m.Data)) + " v=" + vwapiValid(m.Data)
		case <-t.C:
			return "stuck-reply"
		}
	})
	return c.finish(obs, vwapiDecCmd(msg))
}

func vwapiHandlerName(h http.Handler) string {
	if h == nil {
		return "none"
	}
	v := reflect.ValueOf(h)
	if v.Kind() != reflect.Func {
		return "other"
	}
	f := runtime.FuncForPC(v.Pointer())
	if f == nil {
		return "other"
	}
	n := f.Name()
	if i := strings.LastIndex(n, "."); i >= 0 {
		n = n[i+1:]
	}
	return strings.TrimSuffix(n, "-fm")
}

func (c *vwapiCase) opHTTP(method, path string, body []byte) string {
	handler := "none"
	varv := ""
	obs := vwapiTimed(func() string {
		req := &http.Request{Method: method, URL: &url.URL{Path: path}, Proto: "HTTP/1.1", ProtoMajor: 1, ProtoMinor: 1,
			Header: http.Header{}, Body: vwapiHTTPBody(body), ContentLength: int64(len(body)), Host: "verif.local", RequestURI: path}
		rec := httptest.NewRecorder()
		c.router.ServeHTTP(rec, req)
		res := rec.Result()
		ct := res.Header.Get("Content-Type")
		k := "O"
		switch {
		case ct == "":
			k = "-"
		case ct == "application/json":
			k = "J"
		case strings.HasPrefix(ct, "text/plain"):
			k = "T"
		}
		b := rec.Body.Bytes()
		if res.StatusCode != 301 {
			// which handler did the real router pick? (mux redirects unclean paths before matching)
			var m mux.RouteMatch
			req2 := &http.Request{Method: method, URL: &url.URL{Path: path}, Header: http.Header{}, Host: "verif.local"}
			if r, ok := c.router.(*mux.Router); ok && r.Match(req2, &m) && m.MatchErr == nil {
				handler = vwapiHandlerName(m.Handler)
				for _, key := range []string{"id", "stream"} {
					if v, ok := m.Vars[key]; ok {
						varv = v
					}
				}
			}
		}
		return strconv.Itoa(res.StatusCode) + " " + k + " " + enhex(string(b)) + " v=" + vwapiValid(b)
	})
	dec := handler + " " + enhex(varv) + " " + vwapiDecD(body) + " " + vwapiDecS(body)
	return c.finish(obs, dec)
}

// one of the ten rule handlers called directly (as the package's own tests do), path variable set by hand
func (c *vwapiCase) opHCall(name, varv string, body []byte) string {
	h, ok := c.app.RuleHandlersVerif()[name]
	if !ok {
		return "bad-op"
	}
	obs := vwapiTimed(func() string {
		req := &http.Request{Method: "POST", URL: &url.URL{Path: "/"}, Proto: "HTTP/1.1", ProtoMajor: 1, ProtoMinor: 1,
			Header: http.Header{}, Body: vwapiHTTPBody(body), ContentLength: int64(len(body)), Host: "verif.local"}
		req = mux.SetURLVars(req, map[string]string{"id": varv, "stream": varv})
		rec := httptest.NewRecorder()
		h(rec, req)
		res := rec.Result()
		ct := res.Header.Get("Content-Type")
		k := "O"
		switch {
		case ct == "":
			k = "-"
		case ct == "application/json":
			k = "J"
		case strings.HasPrefix(ct, "text/plain"):
			k = "T"
		}
		b := rec.Body.Bytes()
		return strconv.Itoa(res.StatusCode) + " " + k + " " + enhex(string(b)) + " v=" + vwapiValid(b)
	})
	return c.finish(obs, name+" "+enhex(varv)+" "+vwapiDecD(body)+" "+vwapiDecS(body))
}

type vwapiBody struct{ *bytes.Reader }

func (vwapiBody) Close() error { return nil }

func vwapiHTTPBody(b []byte) vwapiBody { return vwapiBody{bytes.NewReader(b)} }

// ---------------------------------------------------------------- stress (K5)

func vwapiStressChild(ms int) {
	a := &vw.App{Hub: agg.New(), Closed: make(chan struct{})}
	a.Websocket = rwc.New(a.Hub)
	go a.Hub.RunWithStats(a.Closed)
	go a.Websocket.Run(a.Closed)
	router := a.RouterVerif()
	var posts, gets, bad int64
	stop := make(chan struct{})
	var wg sync.WaitGroup
	do := func(method, path string, body []byte) int {
		req := &http.Request{Method: method, URL: &url.URL{Path: path}, Header: http.Header{}, Body: vwapiHTTPBody(body), Host: "verif.local"}
		rec := httptest.NewRecorder()
		router.ServeHTTP(rec, req)
		if rec.Code != 200 || !json.Valid(rec.Body.Bytes()) {
			atomic.AddInt64(&bad, 1)
		}
		return rec.Code
	}
	for w := 0; w < 4; w++ {
		wg.Add(2)
		go func(w int) {
			defer wg.Done()
			for i := 0; ; i++ {
				select {
				case <-stop:
					return
				default:
				}
				do("POST", "/api/streams", []byte(fmt.Sprintf(`{"stream":"s%d-%d","feeds":["a","b"]}`, w, i%3000)))
				atomic.AddInt64(&posts, 1)
			}
		}(w)
		go func() {
			defer wg.Done()
			for {
				select {
				case <-stop:
					return
				default:
				}
				do("GET", "/api/streams/all", nil)
				atomic.AddInt64(&gets, 1)
			}
		}()
	}
	time.Sleep(time.Duration(ms) * time.Millisecond)
	close(stop)
	wg.Wait()
	fmt.Printf("done posts=%d gets=%d bad=%d\n", posts, gets, bad)
}

// the goroutine that detected the fatal error is printed first
func vwapiClassifyCrash(stderr string) string {
	i := strings.Index(stderr, "fatal error: ")
	kind := "panic"
	if i < 0 {
		i = strings.Index(stderr, "panic: ")
		if i < 0 {
			return "unknown-death"
		}
	} else {
		kind = "fatal"
	}
	rest := stderr[i:]
	line := rest
	if j := strings.Index(rest, "\n"); j >= 0 {
		line = rest[:j]
	}
	first := rest
	if j := strings.Index(rest, "\n\ngoroutine "); j >= 0 {
		k := strings.Index(rest[j+2:], "\n\n")
		if k >= 0 {
			first = rest[:j+2+k]
		}
	}
	ruleReader := strings.Contains(first, "vw.(*App).handleStreamShow") || strings.Contains(first, "vw.(*App).handleDestinationShow") ||
		strings.Contains(first, "vw.(*App).handleAdminMessage")
	ruleWriter := strings.Contains(first, "agg.(*Hub).RunOptionalStats") || strings.Contains(first, "rwc.(*Hub).Run")
	// K5 shows in two ways: the runtime's own detection (fatal error: concurrent map ...), or encoding/json's map
	// encoder indexing past the slice it sized from Len() because the hub added a rule meanwhile (panic, index out of range)
	if kind == "fatal" && strings.Contains(line, "concurrent map") && (ruleReader || ruleWriter) {
		return "rule-map-race " + strings.ReplaceAll(strings.TrimPrefix(line, "fatal error: "), " ", "_")
	}
	if kind == "panic" && strings.Contains(line, "index out of range") && ruleReader && strings.Contains(first, "encoding/json.mapEncoder.encode") {
		return "rule-map-race json_map_encoder_" + strings.ReplaceAll(strings.TrimPrefix(line, "panic: runtime error: "), " ", "_")
	}
	return "other-crash " + strings.ReplaceAll(line, " ", "_")
}

func vwapiStress(ms int) string {
	exe, err := os.Executable()
	if err != nil {
		return "stress-unavailable"
	}
	cmd := exec.Command(exe, "vwapi", "stress-child", strconv.Itoa(ms))
	var so, se bytes.Buffer
	cmd.Stdout, cmd.Stderr = &so, &se
	done := make(chan error, 1)
	if err := cmd.Start(); err != nil {
		return "stress-unavailable"
	}
	go func() { done <- cmd.Wait() }()
	select {
	case err = <-done:
	case <-time.After(time.Duration(ms)*time.Millisecond + 60*time.Second):
		_ = cmd.Process.Kill()
		return "stress hung"
	}
	if err == nil && strings.HasPrefix(so.String(), "done ") {
		return "stress " + strings.TrimSpace(so.String())
	}
	return "stress crashed " + vwapiClassifyCrash(se.String())
}

func init() {
	register("vwapi", func(args []string) {
		// rules may carry a `file` field: keep whatever the host creates out of the caller's directory
		if dir, err := os.MkdirTemp("", "verif-vwapi-"); err == nil {
			if os.Chdir(dir) == nil {
				defer os.RemoveAll(dir)
			}
		}
		if len(args) == 2 && args[0] == "stress-child" {
			ms, _ := strconv.Atoi(args[1])
			vwapiStressChild(ms)
			return
		}
		runLines(func() func(fs []string) string {
			vwapiCur.close()
			vwapiCur = nil
			return func(fs []string) string {
				if len(fs) == 0 {
					return "bad-op"
				}
				if fs[0] == "stress" && len(fs) == 2 {
					ms, err := strconv.Atoi(fs[1])
					if err != nil || ms < 0 || ms > 120000 {
						return "bad-op"
					}
					return vwapiStress(ms)
				}
				if fs[0] == "start" && len(fs) == 2 {
					api, ok := unhex(fs[1])
					if !ok || vwapiCur != nil {
						return "bad-op"
					}
					vwapiCur = vwapiNew(api)
					return vwapiCur.finish("ok", "-")
				}
				c := vwapiCur
				if c == nil {
					return "bad-op"
				}
				if c.dead {
					return "dead"
				}
				switch {
				case (fs[0] == "ws" || fs[0] == "wsl") && len(fs) == 2:
					msg, ok := unhex(fs[1])
					if !ok {
						return "bad-op"
					}
					if fs[0] == "ws" {
						return c.opWs([]byte(msg))
					}
					return c.opWsl([]byte(msg))
				case fs[0] == "http" && len(fs) == 4:
					p, ok1 := unhex(fs[2])
					b, ok2 := unhex(fs[3])
					if !ok1 || !ok2 {
						return "bad-op"
					}
					return c.opHTTP(fs[1], p, []byte(b))
				case fs[0] == "hcall" && len(fs) == 4:
					v, ok1 := unhex(fs[2])
					b, ok2 := unhex(fs[3])
					if !ok1 || !ok2 {
						return "bad-op"
					}
					return c.opHCall(fs[1], v, []byte(b))
				}
				return "bad-op"
			}
		})
	})
}
