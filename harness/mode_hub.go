//go:build verif

package main

import (
	"sort"
	"strconv"
	"strings"
	"sync"
	"time"

	"github.com/practable/relay/internal/crossbar"
)

// mode hub: the real crossbar Hub.run goroutine driven one event at a time through its real
// unbuffered channels, with socket-less clients; the queue side of the pumps is emulated here
// (the real pumps are exercised by mode relay over loopback).
func init() {
	register("hub", func(args []string) {
		runLines(func() func(fs []string) string {
			h := crossbar.VNewHub()
			clients := []*crossbar.VClient{}
			get := func(f string) *crossbar.VClient {
				if len(f) < 2 || f[0] != 'n' {
					return nil
				}
				k, err := strconv.Atoi(f[1:])
				if err != nil || k < 0 || k >= len(clients) {
					return nil
				}
				return clients[k]
			}
			isMember := func(c *crossbar.VClient) bool {
				for _, m := range h.VMembers() {
					if m.C == c {
						return true
					}
				}
				return false
			}
			state := func() string {
				ms := []string{}
				for _, m := range h.VMembers() {
					ms = append(ms, m.Name[1:]+":"+enhex(m.Topic)+":"+strconv.Itoa(m.QLen))
				}
				sort.Strings(ms)
				ds := []string{}
				dcs := h.VDcs()
				dcs.Lock()
				for p, m := range dcs.ChildrenByParent {
					if len(m) == 0 {
						ds = append(ds, enhex(p)+"/EMPTY")
					}
					for c := range m {
						ds = append(ds, enhex(p)+"/"+c[1:])
					}
				}
				np := len(dcs.ParentByChild)
				dcs.Unlock()
				sort.Strings(ds)
				return "m=" + strings.Join(ms, ",") + " dcs=" + strings.Join(ds, ",") + " pbc=" + strconv.Itoa(np)
			}
			stuck := false
			var inner func(fs []string) string
			outer := func(fs []string) string {
				if stuck {
					return "dead"
				}
				r := withTimeout(3*time.Second, func() string { return inner(fs) })
				if r == "stuck" {
					stuck = true
				}
				return r
			}
			inner = func(fs []string) string {
				switch {
				case len(fs) == 6 && fs[0] == "reg":
					t, ok1 := unhex(fs[1])
					b, ok2 := unhex(fs[2])
					capn, err := strconv.Atoi(fs[5])
					if !ok1 || !ok2 || err != nil || capn < 0 || capn > 4096 {
						return "bad-op"
					}
					c := crossbar.VNewClient(h, "n"+strconv.Itoa(len(clients)), t, b, fs[3] == "1", fs[4] == "1", capn)
					clients = append(clients, c)
					h.VRegister(c)
					h.VBarrier()
					return "ok " + state()
				case len(fs) == 2 && fs[0] == "unreg":
					c := get(fs[1])
					if c == nil {
						return "ok " + state()
					}
					h.VUnregister(c)
					h.VBarrier()
					return "ok " + state()
				case len(fs) == 4 && fs[0] == "in":
					c := get(fs[1])
					d, ok := unhex(fs[2])
					mt, err := strconv.Atoi(fs[3])
					if !ok || err != nil {
						return "bad-op"
					}
					// readPump: only a registered client has a running pump; forward only if it may write
					if c != nil && isMember(c) && c.VCanWrite() {
						h.VBroadcastFrom(c, []byte(d), mt)
						h.VBarrier()
					}
					return "ok " + state()
				case len(fs) == 2 && fs[0] == "burst":
					// several writers' frames arrive while the hub is momentarily busy (all queued at the same instant)
					type bitem struct {
						c *crossbar.VClient
						d string
					}
					items := []bitem{}
					for _, item := range strings.Split(fs[1], ",") {
						p := strings.SplitN(item, ":", 2)
						if len(p) != 2 {
							return "bad-op"
						}
						c := get(p[0])
						d, ok := unhex(p[1])
						if !ok {
							return "bad-op"
						}
						if c != nil && isMember(c) && c.VCanWrite() { // (membership is read before the hub is stalled)
							items = append(items, bitem{c, d})
						}
					}
					h.VStall(40 * time.Millisecond)
					var wg sync.WaitGroup
					for _, it := range items {
						c, d := it.c, it.d
						{
							wg.Add(1)
							go func(c *crossbar.VClient, d string) {
								defer wg.Done()
								h.VBroadcastFrom(c, []byte(d), 2)
							}(c, d)
							time.Sleep(2 * time.Millisecond) // arrival order = listed order
						}
					}
					wg.Wait()
					h.VBarrier()
					return "ok " + state()
				case len(fs) == 3 && fs[0] == "drain":
					c := get(fs[1])
					k, err := strconv.Atoi(fs[2])
					if err != nil || k < 0 {
						return "bad-op"
					}
					if c == nil || !isMember(c) {
						return "none " + state()
					}
					// writePump: head, then the follow-ons present at that moment (at most k of them here)
					d, _, _, got, _ := c.VRecv()
					if !got {
						return "none " + state()
					}
					if !c.VCanRead() {
						return "discard " + state()
					}
					frame := append([]byte{}, d...)
					n := c.VQLen()
					for i := 0; i < n && i < k; i++ {
						d2, _, _, got2, _ := c.VRecv()
						if !got2 {
							break
						}
						frame = append(frame, d2...)
					}
					return "frame:" + enhex(string(frame)) + " " + state()
				}
				return "bad-op"
			}
			return outer
		})
	})
	register("path", func(args []string) {
		runLines(func() func(fs []string) string {
			return func(fs []string) string {
				if len(fs) == 2 && fs[0] == "route" {
					p, ok := unhex(fs[1])
					if !ok {
						return "bad-op"
					}
					s := crossbar.VSlashify(p)
					return enhex(crossbar.VConnType(s)) + " " + enhex(crossbar.VTopic(s))
				}
				return "bad-op"
			}
		})
	})
}
