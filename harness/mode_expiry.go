//go:build verif

package main

import (
	"fmt"
	"strconv"
	"strings"
	"sync"
	"time"

	"github.com/gorilla/websocket"
)

// mode expiry (C06): real clock, real timers. A connection is admitted at a chosen offset inside a second
// with a token expiring `life` seconds later; the instant at which the relay closes it is measured on the
// client side, relative to the expiry instant E.
func init() {
	register("expiry", func(args []string) {
		var cur *relayInst
		runLines(func() func(fs []string) string {
			if cur != nil {
				cur.shutdown()
				cur = nil
			}
			var r *relayInst
			return func(fs []string) string {
				if r == nil {
					relayRealClock = true
					r = newRelayInst(false, 64)
					relayRealClock = false
					cur = r
				}
				return withTimeout(120*time.Second, func() string { return expiryOp(r, fs) })
			}
		})
		if cur != nil {
			cur.shutdown()
		}
	})
}

func (r *relayInst) openAt(topic, bid string, exp int64, scopes []string) (*websocket.Conn, int64, bool) {
	return r.openAtLate(topic, bid, exp, scopes, 0)
}

// openAtLate: the code is minted now; the websocket is dialled at dialAtNs (0: at once) — e.g. in the very second the token expires
func (r *relayInst) openAtLate(topic, bid string, exp int64, scopes []string, dialAtNs int64) (*websocket.Conn, int64, bool) {
	sc := []string{}
	for _, s := range scopes {
		sc = append(sc, enhex(s))
	}
	now := time.Now().Unix()
	tok := fmt.Sprintf("alg=HS256;sig=good;exp=i%d;nbf=i%d;iat=i%d;aud=l%s;scopes=l%s;topic=s%s;prefix=s%s;bid=s%s",
		exp, now-10, now-10, enhex(relayAudience), strings.Join(sc, ","), enhex(topic), enhex("session"), enhex(bid))
	st, body, _ := r.request("POST", "/session/"+topic, buildToken(tok))
	if st != 200 {
		return nil, 0, false
	}
	i := strings.Index(string(body), "?code=")
	if i < 0 {
		return nil, 0, false
	}
	code := strings.TrimRight(string(body)[i+6:], "\"}\n ")
	if dialAtNs > 0 {
		if d := time.Duration(dialAtNs - time.Now().UnixNano()); d > 0 {
			time.Sleep(d)
		}
	}
	admit := time.Now().UnixNano()
	c, _, err := websocket.DefaultDialer.Dial("ws://127.0.0.1:"+strconv.Itoa(r.wsPort)+"/session/"+topic+"?code="+code, nil)
	if err != nil {
		return nil, 0, false
	}
	return c, admit, true
}

func expiryOp(r *relayInst, fs []string) string {
	if len(fs) == 0 {
		return "bad-op"
	}
	switch fs[0] {
	case "batch":
		// batch <life_s>:<offset_ms>:<behaviour> ...   all connections of a batch run concurrently
		type res struct{ s string }
		out := make([]string, len(fs)-1)
		var wg sync.WaitGroup
		for i, spec := range fs[1:] {
			p := strings.Split(spec, ":")
			if len(p) != 3 {
				return "bad-op"
			}
			life, _ := strconv.ParseInt(p[0], 10, 64)
			off, _ := strconv.Atoi(p[1])
			beh := p[2]
			wg.Add(1)
			go func(i int) {
				defer wg.Done()
				topic := "e" + strconv.Itoa(i)
				// wait until the chosen offset inside a second
				for {
					ms := int(time.Now().UnixNano()/1e6) % 1000
					d := off - ms
					if d < 0 {
						d += 1000
					}
					if d <= 2 {
						break
					}
					time.Sleep(time.Duration(d) * time.Millisecond / 2)
				}
				exp := time.Now().Unix() + life
				dialAt := int64(0)
				if beh == "late" {
					dialAt = exp*1e9 + 150e6 // dialled inside the second that begins at the expiry: exp - now == 0
				}
				c, admit, ok := r.openAtLate(topic, "be"+strconv.Itoa(i), exp, []string{"read", "write"}, dialAt)
				if !ok {
					out[i] = "refused"
					return
				}
				var peer *websocket.Conn
				var peerGot, peerGotAfter int
				var pmu sync.Mutex
				stopTraffic := make(chan struct{})
				if beh == "busy" || beh == "stall" {
					// a long-lived peer on the same topic: traffic from/to the expiring connection is observed there
					peer, _, ok = r.openAt(topic, "bp"+strconv.Itoa(i), time.Now().Unix()+600, []string{"read", "write"})
					if ok {
						go func() {
							for {
								_, _, err := peer.ReadMessage()
								if err != nil {
									return
								}
								pmu.Lock()
								if time.Now().UnixNano() > (exp+1)*1e9+300e6 {
									peerGotAfter++
								}
								peerGot++
								pmu.Unlock()
							}
						}()
						go func() { // the expiring connection keeps sending, also after E
							for {
								select {
								case <-stopTraffic:
									return
								default:
								}
								c.WriteMessage(websocket.BinaryMessage, []byte("tick"))
								time.Sleep(20 * time.Millisecond)
							}
						}()
					}
				}
				if beh == "busyrx" {
					// traffic TOWARDS the expiring connection (its writePump keeps delivering), also after E
					peer, _, ok = r.openAt(topic, "bp"+strconv.Itoa(i), time.Now().Unix()+600, []string{"read", "write"})
					if ok {
						go func() {
							for {
								select {
								case <-stopTraffic:
									return
								default:
								}
								peer.WriteMessage(websocket.BinaryMessage, []byte("tock"))
								time.Sleep(50 * time.Millisecond)
							}
						}()
					}
				}
				if beh == "sendquiet" {
					// one data message, then silence (no pong is due before the expiry either): the relay must not end it before E
					c.WriteMessage(websocket.BinaryMessage, []byte("once"))
				}
				var closedAt int64
				if beh == "stall" {
					// never read: the close can only be seen by a failing write; poll with pings
					for time.Now().UnixNano() < (exp+4)*1e9 {
						if err := c.WriteControl(websocket.PingMessage, nil, time.Now().Add(100*time.Millisecond)); err != nil {
							closedAt = time.Now().UnixNano()
							break
						}
						time.Sleep(10 * time.Millisecond)
					}
				} else {
					c.SetReadDeadline(time.Unix(exp+5, 0))
					for {
						_, _, err := c.ReadMessage()
						if err != nil {
							closedAt = time.Now().UnixNano()
							break
						}
					}
					if time.Now().Unix() >= exp+5 {
						closedAt = 0
					}
				}
				time.Sleep(400 * time.Millisecond)
				close(stopTraffic)
				if beh == "ignoreclose" {
					time.Sleep(300 * time.Millisecond) // keep the socket open a while after the relay's close
				}
				c.Close()
				if peer != nil {
					peer.Close()
				}
				stillMember := false
				for _, m := range r.hub.VMembers() {
					if m.Topic == topic && strings.HasPrefix(m.Name, "") && m.C.VName() != "" {
						_ = m
					}
				}
				pmu.Lock()
				after := peerGotAfter
				pmu.Unlock()
				if closedAt == 0 {
					out[i] = fmt.Sprintf("notclosed admit_off_ns=%d", admit%1e9)
					return
				}
				out[i] = fmt.Sprintf("closed rel_ms=%d admit_off_ns=%d exp=%d admit_ns=%d after=%d member=%v",
					(closedAt-exp*1e9)/1e6, admit%1e9, exp, admit, after, stillMember)
			}(i)
		}
		wg.Wait()
		return "batch " + strings.Join(out, " | ")
	case "overflow":
		// a token expiring 9 223 372 037 s from now: time.Duration(ttl) * time.Second wraps (known finding K3)
		exp := time.Now().Unix() + 9223372037
		c, admit, ok := r.openAt("ovf", "bo", exp, []string{"read", "write"})
		if !ok {
			return "overflow refused"
		}
		defer c.Close()
		c.SetReadDeadline(time.Now().Add(1500 * time.Millisecond))
		for {
			if _, _, err := c.ReadMessage(); err != nil {
				if ne, ok := err.(interface{ Timeout() bool }); ok && ne.Timeout() {
					return "overflow still-open"
				}
				return fmt.Sprintf("overflow closed after_admit_ms=%d", (time.Now().UnixNano()-admit)/1e6)
			}
		}
	case "idle":
		// idle <life_s> <check_s>: an idle, cooperative (reading, so answering pings) client must still be open at check_s
		life, _ := strconv.ParseInt(fs[1], 10, 64)
		check, _ := strconv.ParseInt(fs[2], 10, 64)
		exp := time.Now().Unix() + life
		c, _, ok := r.openAt("idle", "bi", exp, []string{"read"})
		if !ok {
			return "refused"
		}
		closed := make(chan int64, 1)
		go func() {
			for {
				if _, _, err := c.ReadMessage(); err != nil {
					closed <- time.Now().UnixNano()
					return
				}
			}
		}()
		select {
		case t := <-closed:
			return fmt.Sprintf("idle closed-early at_rel_ms=%d", (t-exp*1e9)/1e6)
		case <-time.After(time.Duration(check) * time.Second):
		}
		select {
		case t := <-closed:
			c.Close()
			return fmt.Sprintf("idle open-at-check closed rel_ms=%d", (t-exp*1e9)/1e6)
		case <-time.After(time.Duration(life-check+3) * time.Second):
			c.Close()
			return "idle open-at-check notclosed"
		}
	}
	return "bad-op"
}
